(* C06: every generated __call__ equals its documented closed form (spec/Forms.v). *)
From Coq Require Import Reals Lra List.
From V Require Import lib.RLib gen.PotFuncs spec.Forms.
From Interval Require Import Tactic.
Import ListNotations.
Local Open Scope R_scope.

Lemma buck_ok r A rho C : buck_call r A rho C = spec_buck r A rho C.
Proof. reflexivity. Qed.

Lemma bornmayer_ok r A rho : r <> 0 -> bornmayer_call r A rho = spec_bornmayer r A rho.
Proof. intros _. unfold bornmayer_call, buck_call, spec_bornmayer, Rdiv. ring. Qed.

Lemma constant_ok r C : constant_call r C = spec_constant r C.
Proof. reflexivity. Qed.

Lemma coul_ok r qi qj : r <> 0 -> coul_call r qi qj = spec_coul r qi qj.
Proof. intros Hr. unfold coul_call, spec_coul, eps0. field. split; [exact Hr|apply PI_neq0]. Qed.

Lemma exponential_ok r A n : exponential_call r A n = spec_exponential r A n.
Proof. reflexivity. Qed.

Lemma exp_spline_ok r B0 B1 B2 B3 B4 B5 C : exp_spline_call r B0 B1 B2 B3 B4 B5 C = spec_exp_spline r B0 B1 B2 B3 B4 B5 C.
Proof. unfold exp_spline_call, spec_exp_spline. f_equal. Qed.

Lemma hbnd_ok r A B : hbnd_call r A B = spec_hbnd r A B.
Proof. reflexivity. Qed.

Lemma lj_ok r epsilon sigma : lj_call r epsilon sigma = spec_lj r epsilon sigma.
Proof. reflexivity. Qed.

Lemma morse_ok r gamma r_star D : morse_call r gamma r_star D = spec_morse r gamma r_star D.
Proof. reflexivity. Qed.

Lemma sqrt_ok r G : sqrt_call r G = spec_sqrt r G.
Proof. reflexivity. Qed.

Lemma zero_ok r : zero_call r = spec_zero r.
Proof. reflexivity. Qed.

(* polynomial of any order, by induction on the coefficient list *)
Lemma isum_aux_poly r : forall coefs i, isum_aux (fun i c => r ^ i * c) i coefs = spec_polynomial_from i r coefs.
Proof. induction coefs as [|c cs IH]; intro i; cbn [isum_aux spec_polynomial_from]; [reflexivity|]. rewrite IH. ring. Qed.

Lemma polynomial_ok r coefs : polynomial_call r coefs = spec_polynomial r coefs.
Proof. unfold polynomial_call, isum, spec_polynomial. cbn [skipn]. apply isum_aux_poly. Qed.

(* ZBL *)
Lemma zbl_ok r z1 z2 : r <> 0 -> 0 < z1 -> 0 < z2 -> zbl_call r z1 z2 = spec_zbl r z1 z2.
Proof.
  intros Hr H1 H2. unfold zbl_call, spec_zbl, zbl_phi, zbl_a.
  set (s := Rpower z1 (23 / 100) + Rpower z2 (23 / 100)).
  assert (Hs : 0 < s) by (unfold s, Rpower; apply Rplus_lt_0_compat; apply exp_pos).
  cbv zeta.
  replace (- (16 / 5) * r / (4427 / 5000 * (529 / 1000) / s)) with (- (32 / 10) * (r / (8854 / 10000 * (529 / 1000) / s))) by (field; lra).
  replace (- (9423 / 10000) * r / (4427 / 5000 * (529 / 1000) / s)) with (- (9423 / 10000) * (r / (8854 / 10000 * (529 / 1000) / s))) by (field; lra).
  replace (- (4029 / 10000) * r / (4427 / 5000 * (529 / 1000) / s)) with (- (4029 / 10000) * (r / (8854 / 10000 * (529 / 1000) / s))) by (field; lra).
  replace (- (126 / 625) * r / (4427 / 5000 * (529 / 1000) / s)) with (- (2016 / 10000) * (r / (8854 / 10000 * (529 / 1000) / s))) by (field; lra).
  field. exact Hr.
Qed.

