(* C18: tabulated input. *)
From Coq Require Import QArith Qminmax Qreals List Bool Lia Permutation Sorted Reals Lra Lqa.
From Coquelicot Require Import Coquelicot.
From V Require Import lib.Common lib.Sorting model.TableReader.
Import ListNotations.

(* ------------------------------------------------------------------ x / y versus xy *)
Section Spelling.
  Context {A : Type}.
  Lemma split_xy_interleave (x y : list A) :
    length x = length y -> split_xy (interleave x y) true = (x, y).
  Proof.
    revert y. induction x as [|a x IH]; intros [|b y] Hl; try discriminate; [reflexivity|].
    cbn [interleave split_xy negb]. rewrite IH by (simpl in Hl; lia). reflexivity.
  Qed.
  Lemma interleave_length (x y : list A) : length x = length y -> length (interleave x y) = (2 * length x)%nat.
  Proof.
    revert y. induction x as [|a x IH]; intros [|b y] Hl; try discriminate; [reflexivity|].
    cbn [interleave length]. rewrite IH by (simpl in Hl; lia). lia.
  Qed.
  Lemma even_double n : Nat.even (2 * n) = true.
  Proof. rewrite Nat.even_mul. reflexivity. Qed.

  Lemma xy_same_as_x_y (x y : list A) :
    length x = length y -> parse_xy (interleave x y) = parse_x_y x y /\ parse_x_y x y = Ok (x, y).
  Proof.
    intro Hl. unfold parse_xy, parse_x_y. rewrite interleave_length, even_double, split_xy_interleave by exact Hl.
    rewrite Hl, Nat.eqb_refl. split; reflexivity.
  Qed.

  Lemma split_xy_spec n : forall (l x y : list A), length l = (2 * n)%nat -> split_xy l true = (x, y) ->
    l = interleave x y /\ length x = n /\ length y = n.
  Proof.
    induction n as [|n IH]; intros l x y Hl Hs.
    - destruct l; [|discriminate]. cbn in Hs. injection Hs as <- <-. cbn. auto.
    - destruct l as [|a [|b l]]; try (simpl in Hl; lia).
      cbn [split_xy negb] in Hs. destruct (split_xy l true) as [x' y'] eqn:E.
      destruct (IH l x' y' ltac:(simpl in Hl; lia) E) as (-> & Hx & Hy).
      injection Hs as <- <-. cbn [interleave length]. auto.
  Qed.
  Lemma parse_xy_ok (l x y : list A) : parse_xy l = Ok (x, y) -> l = interleave x y /\ length x = length y.
  Proof.
    unfold parse_xy. destruct (Nat.even (length l)) eqn:He; [|discriminate].
    apply Nat.even_spec in He. destruct He as [n Hn]. intro H. injection H as H.
    destruct (split_xy_spec n l x y Hn H) as (? & ? & ?). split; congruence.
  Qed.
  Lemma parse_xy_odd (l : list A) : Nat.even (length l) = false -> parse_xy l = @CfgErr (list A * list A).
  Proof. unfold parse_xy. intros ->. reflexivity. Qed.
  Lemma parse_x_y_mismatch (x y : list A) : length x <> length y -> parse_x_y x y = CfgErr.
  Proof. unfold parse_x_y. intro H. apply Nat.eqb_neq in H. rewrite H. reflexivity. Qed.
End Spelling.

(* ------------------------------------------------------------------ TableReader *)
Local Open Scope Q_scope.
Definition xlt (p q : Q * Q) : Prop := fst p < fst q.
Definition xsorted (pts : list (Q * Q)) : Prop := StronglySorted xlt pts.

Lemma bisect_app l1 r x : Forall (fun p => fst p < x) l1 -> bisect_left (l1 ++ r) x = (length l1 + bisect_left r x)%nat.
Proof.
  induction l1 as [|p l1 IH]; intro H; [reflexivity|]. inversion H as [|? ? Hp Hr]; subst.
  cbn [app bisect_left length]. destruct (Qlt_le_dec (fst p) x) as [_|Hc]; [rewrite IH by exact Hr; reflexivity|].
  exfalso. apply (Qlt_irrefl x). eapply Qle_lt_trans; eassumption.
Qed.
Lemma bisect_stop p r x : x <= fst p -> bisect_left (p :: r) x = O.
Proof. intro H. cbn [bisect_left]. destruct (Qlt_le_dec (fst p) x) as [Hc|_]; [|reflexivity]. exfalso. apply (Qlt_irrefl x). eapply Qle_lt_trans; eassumption. Qed.

Lemma xsorted_split l1 p l2 : xsorted (l1 ++ p :: l2) ->
  Forall (fun q => fst q < fst p) l1 /\ Forall (fun q => fst p < fst q) l2.
Proof.
  induction l1 as [|a l1 IH]; cbn [app]; intro H; inversion H as [|? ? Hs Hall]; subst.
  - split; [constructor|exact Hall].
  - destruct (IH Hs) as [H1 H2]. split; [|exact H2]. constructor; [|exact H1].
    rewrite Forall_forall in Hall. apply (Hall p). apply in_or_app. right. left. reflexivity.
Qed.
Lemma first_x_le l1 p l2 : xsorted (l1 ++ p :: l2) -> first_x (l1 ++ p :: l2) <= fst p.
Proof.
  intro H. destruct l1 as [|a l1]; cbn [app first_x]; [apply Qle_refl|].
  apply xsorted_split in H. destruct H as [H _]. inversion H; subst. apply Qlt_le_weak. assumption.
Qed.
Lemma last_app_cons {A} (l1 : list A) p l2 d : last (l1 ++ p :: l2) d = last (p :: l2) d.
Proof. induction l1 as [|a l1 IH]; [reflexivity|]. cbn [app]. rewrite <- IH. destruct (l1 ++ p :: l2) eqn:E; [destruct l1; discriminate|reflexivity]. Qed.
Lemma last_x_ge l1 p l2 : xsorted (l1 ++ p :: l2) -> fst p <= last_x (l1 ++ p :: l2).
Proof.
  intro H. apply xsorted_split in H. destruct H as [_ H]. unfold last_x.
  rewrite last_app_cons.
  destruct l2 as [|b l2 _] using rev_ind; [apply Qle_refl|].
  rewrite app_comm_cons, last_last. rewrite Forall_forall in H. apply Qlt_le_weak, H. apply in_or_app. right. left. reflexivity.
Qed.

Lemma Qeq_bool_refl x : Qeq_bool x x = true.
Proof. apply Qeq_bool_iff. reflexivity. Qed.
Lemma Qeq_bool_lt x y : x < y -> Qeq_bool x y = false.
Proof. intro H. destruct (Qeq_bool x y) eqn:E; [|reflexivity]. apply Qeq_bool_iff in E. rewrite E in H. exfalso. exact (Qlt_irrefl _ H). Qed.
Lemma Qeq_bool_gt x y : y < x -> Qeq_bool x y = false.
Proof. intro H. destruct (Qeq_bool x y) eqn:E; [|reflexivity]. apply Qeq_bool_iff in E. rewrite E in H. exfalso. exact (Qlt_irrefl _ H). Qed.

Lemma find_index_inside pts x : first_x pts <= x -> x <= last_x pts ->
  find_index pts x = let idx := bisect_left pts x in
                     if Qeq_bool (fst (nth idx pts (0, 0))) x then Some idx else Some (idx - 1)%nat.
Proof.
  intros H1 H2. unfold find_index.
  destruct (Qlt_le_dec x (first_x pts)) as [Hc|_]; [exfalso; apply (Qlt_irrefl x); eapply Qlt_le_trans; eassumption|].
  destruct (Qlt_le_dec (last_x pts) x) as [Hc|_]; [exfalso; apply (Qlt_irrefl x); eapply Qle_lt_trans; eassumption|].
  reflexivity.
Qed.

(* at a tabulated x the tabulated y is returned (the very number read from the file) *)
Lemma get_value_at_point l1 p l2 x :
  xsorted (l1 ++ p :: l2) -> x == fst p -> get_value (l1 ++ p :: l2) x = snd p.
Proof.
  intros Hs Hx. set (pts := l1 ++ p :: l2).
  assert (Hb : bisect_left pts x = length l1).
  { unfold pts. rewrite bisect_app.
    - rewrite bisect_stop; [lia|]. rewrite Hx. apply Qle_refl.
    - destruct (xsorted_split _ _ _ Hs) as [H _]. eapply Forall_impl; [|exact H]. intros q Hq. cbn beta in Hq. rewrite Hx. exact Hq. }
  unfold get_value. rewrite find_index_inside.
  - cbn zeta. rewrite Hb. unfold pts. rewrite nth_middle.
    assert (He : Qeq_bool (fst p) x = true) by (apply Qeq_bool_iff; symmetry; exact Hx).
    rewrite He, nth_middle. destruct p as [px py]. cbn [fst snd] in *. rewrite He. reflexivity.
  - rewrite Hx. apply first_x_le, Hs.
  - rewrite Hx. apply last_x_ge, Hs.
Qed.

Lemma get_value_outside pts x : x < first_x pts \/ last_x pts < x -> get_value pts x = 0.
Proof.
  intro H. unfold get_value, find_index.
  destruct (Qlt_le_dec x (first_x pts)) as [_|Hc]; [reflexivity|].
  destruct (Qlt_le_dec (last_x pts) x) as [_|Hc2]; [reflexivity|].
  exfalso. destruct H as [H|H]; apply (Qlt_irrefl x); [eapply Qlt_le_trans|eapply Qle_lt_trans]; eassumption.
Qed.

(* strictly between two neighbouring rows: the straight line through them, exactly as computed *)
Lemma get_value_between l1 lx ly hx hy l2 x :
  xsorted (l1 ++ (lx, ly) :: (hx, hy) :: l2) -> lx < x -> x < hx ->
  get_value (l1 ++ (lx, ly) :: (hx, hy) :: l2) x =
    (let m := (hy - ly) / (hx - lx) in let c := ly - m * lx in m * x + c).
Proof.
  intros Hs Hl Hh. set (pts := l1 ++ (lx, ly) :: (hx, hy) :: l2).
  assert (Hpts : pts = (l1 ++ [(lx, ly)]) ++ (hx, hy) :: l2) by (unfold pts; rewrite <- app_assoc; reflexivity).
  assert (Hb : bisect_left pts x = S (length l1)).
  { rewrite Hpts, bisect_app.
    - rewrite bisect_stop by (cbn [fst]; apply Qlt_le_weak, Hh). rewrite app_length. cbn [length]. lia.
    - apply Forall_app. split; [|constructor; [exact Hl|constructor]].
      destruct (xsorted_split _ _ _ Hs) as [H _]. eapply Forall_impl; [|exact H]. intros q Hq. cbn [fst] in Hq. eapply Qlt_trans; eassumption. }
  assert (Hn1 : nth (S (length l1)) pts (0, 0) = (hx, hy)).
  { rewrite Hpts. replace (S (length l1)) with (length (l1 ++ [(lx, ly)])) by (rewrite app_length; cbn [length]; lia). apply nth_middle. }
  assert (Hn0 : nth (length l1) pts (0, 0) = (lx, ly)) by apply nth_middle.
  unfold get_value. rewrite find_index_inside.
  - cbn zeta. rewrite Hb, Hn1. cbn [fst]. rewrite (Qeq_bool_gt hx x Hh).
    replace (S (length l1) - 1)%nat with (length l1) by lia. rewrite Hn0, (Qeq_bool_lt lx x Hl).
    replace (Nat.eqb (S (length l1)) (length pts)) with false.
    + rewrite Hn1. reflexivity.
    + symmetry. apply Nat.eqb_neq. unfold pts. rewrite app_length. cbn [length]. lia.
  - eapply Qle_trans; [apply (first_x_le l1 (lx, ly)), Hs|]. apply Qlt_le_weak, Hl.
  - pose proof (last_x_ge (l1 ++ [(lx, ly)]) (hx, hy) l2) as H. rewrite <- Hpts in H. cbn [fst] in H.
    eapply Qle_trans; [apply Qlt_le_weak, Hh|]. apply H. exact Hs.
Qed.

(* the line is the convex combination of the neighbouring y values, hence between them *)
Lemma line_convex lx ly hx hy x : lx < x -> x < hx ->
  let t := (x - lx) / (hx - lx) in
  (let m := (hy - ly) / (hx - lx) in let c := ly - m * lx in m * x + c) == ly * (1 - t) + hy * t /\ 0 < t /\ t < 1.
Proof.
  intros Hl Hh t. assert (Hd : 0 < hx - lx) by lra.
  split; [unfold t; field; intro E; rewrite E in Hd; exact (Qlt_irrefl _ Hd)|]. unfold t. split.

  - apply Qlt_shift_div_l; lra.
  - apply Qlt_shift_div_r; lra.
Qed.
Lemma convex_between a b t : 0 <= t -> t <= 1 -> Qmin a b <= a * (1 - t) + b * t /\ a * (1 - t) + b * t <= Qmax a b.
Proof.
  intros H0 H1. destruct (Qlt_le_dec a b) as [Hab|Hab].
  - rewrite Q.min_l, Q.max_r by lra. split; nra.
  - rewrite Q.min_r, Q.max_l by lra. split; nra.
Qed.

(* ------------------------------------------------------------------ DatReader._populate *)
Definition data_rows (ls : list line) : list (Q * Q) :=
  flat_map (fun l => match l with Data x y => [(x, y)] | _ => [] end) ls.
Lemma populate_sort ls : populate ls = sort point_leb (data_rows ls).
Proof. reflexivity. Qed.
Lemma data_rows_app a b : data_rows (a ++ b) = data_rows a ++ data_rows b.
Proof. apply flat_map_app. Qed.
(* comment and blank lines anywhere do not matter *)
Lemma populate_ignores a b l : l = Blank \/ l = Comment -> populate (a ++ l :: b) = populate (a ++ b).
Proof. intros [-> | ->]; rewrite !populate_sort, !data_rows_app; reflexivity. Qed.
Lemma populate_perm ls : Permutation (data_rows ls) (populate ls).
Proof. apply sort_perm. Qed.

Lemma Qle_bool_true x y : Qle_bool x y = true <-> x <= y.
Proof. apply Qle_bool_iff. Qed.
Lemma point_leb_spec p q : point_leb p q = true <-> fst p < fst q \/ (fst p == fst q /\ snd p <= snd q).
Proof.
  unfold point_leb. rewrite andb_true_iff, orb_true_iff, negb_true_iff, !Qle_bool_true.
  destruct (Qeq_bool (fst p) (fst q)) eqn:E.
  - apply Qeq_bool_iff in E. split.
    + intros [_ [H|H]]; [discriminate|right; split; assumption].
    + intros [H|[_ H]]; [rewrite E in H; exfalso; exact (Qlt_irrefl _ H)|]. split; [rewrite E; apply Qle_refl|right; exact H].
  - apply Qeq_bool_neq in E. split.
    + intros [H _]. left. apply Qle_lteq in H. destruct H as [H|H]; [exact H|contradiction].
    + intros [H|[H _]]; [|contradiction]. split; [apply Qlt_le_weak, H|left; reflexivity].
Qed.
Lemma point_leb_total p q : point_leb p q = true \/ point_leb q p = true.
Proof.
  rewrite !point_leb_spec. destruct (Q_dec (fst p) (fst q)) as [[H|H]|H]; [left; left; exact H|right; left; exact H|].
  destruct (Qlt_le_dec (snd q) (snd p)) as [Hy|Hy].
  - right. right. split; [symmetry; exact H|apply Qlt_le_weak, Hy].
  - left. right. split; assumption.
Qed.
Lemma point_leb_trans p q r : point_leb p q = true -> point_leb q r = true -> point_leb p r = true.
Proof.
  rewrite !point_leb_spec. intros [H1|[H1 H1']] [H2|[H2 H2']].
  - left. eapply Qlt_trans; eassumption.
  - left. rewrite <- H2. exact H1.
  - left. rewrite H1. exact H2.
  - right. split; [rewrite H1; exact H2|eapply Qle_trans; eassumption].
Qed.
Lemma populate_sorted ls : StronglySorted (@Sorting.le _ point_leb) (populate ls).
Proof. apply sort_sorted; [apply point_leb_total|apply point_leb_trans]. Qed.

(* rows with pairwise different x: the reader's list is strictly increasing in x *)
Definition distinct_x (l : list (Q * Q)) : Prop := NoDup l /\ forall p q, In p l -> In q l -> fst p == fst q -> p = q.
Lemma sorted_distinct_xsorted l : StronglySorted (@Sorting.le _ point_leb) l -> distinct_x l -> xsorted l.
Proof.
  induction l as [|p l IH]; intros Hs [Hnd Hinj]; [constructor|].
  inversion Hs as [|? ? Hs' Hall]; subst. inversion Hnd as [|? ? Hnotin Hnd']; subst.
  constructor.
  - apply IH; [exact Hs'|]. split; [exact Hnd'|]. intros a b Ha Hb. apply Hinj; right; assumption.
  - rewrite Forall_forall in *. intros q Hq. specialize (Hall q Hq). unfold le in Hall. apply point_leb_spec in Hall.
    destruct Hall as [H|[H _]]; [exact H|]. exfalso. apply Hnotin. rewrite (Hinj p q (or_introl eq_refl) (or_intror Hq) H). exact Hq.
Qed.
Lemma distinct_x_perm l l' : Permutation l l' -> distinct_x l -> distinct_x l'.
Proof.
  intros Hp [Hnd Hinj]. split; [eapply Permutation_NoDup; eassumption|].
  intros p q Hp' Hq'. apply Hinj; eapply Permutation_in; try apply Permutation_sym; eassumption.
Qed.
Lemma populate_xsorted ls : distinct_x (data_rows ls) -> xsorted (populate ls).
Proof. intro H. apply sorted_distinct_xsorted; [apply populate_sorted|]. eapply distinct_x_perm; [apply populate_perm|exact H]. Qed.

(* end to end: every row of the file is returned at its x, whatever the order of the rows and wherever
   comments and blank lines stand *)
Lemma reader_returns_rows ls x y :
  distinct_x (data_rows ls) -> In (Data x y) ls -> get_value (populate ls) x = y.
Proof.
  intros Hd Hin. assert (Hr : In (x, y) (populate ls)).
  { eapply Permutation_in; [apply populate_perm|]. unfold data_rows. apply in_flat_map. exists (Data x y). split; [exact Hin|left; reflexivity]. }
  apply in_split in Hr. destruct Hr as (l1 & l2 & E). pose proof (populate_xsorted ls Hd) as Hs. rewrite E in *.
  apply (get_value_at_point l1 (x, y) l2 x Hs). reflexivity.
Qed.

(* ------------------------------------------------------------------ plotToFile *)
From V Require Import gen.GridArith.
Lemma plot_xs_length lowx highx steps : length (plot_xs lowx highx steps) = steps.
Proof. unfold plot_xs. rewrite map_length, seq_length. reflexivity. Qed.
Lemma plot_xs_nth lowx highx steps i : (i < steps)%nat ->
  nth i (plot_xs lowx highx steps) 0 == lowx + inject_Z (Z.of_nat i) * (highx - lowx) / inject_Z (Z.of_nat steps).
Proof.
  intro Hi. unfold plot_xs. set (f := fun i => plot_x lowx (Z.of_nat i) (plot_step lowx highx (Z.of_nat steps))).
  rewrite (nth_indep _ 0 (f O)) by (rewrite map_length, seq_length; exact Hi).
  rewrite (map_nth f), seq_nth by exact Hi. cbn [plus]. unfold f, plot_x, plot_step.
  assert (Hs : ~ inject_Z (Z.of_nat steps) == 0).
  { intro E. unfold Qeq in E. cbn in E. lia. }
  change (0 + i)%nat with i. generalize dependent (inject_Z (Z.of_nat steps)). generalize (inject_Z (Z.of_nat i)). intros k s Hs. field. exact Hs.
Qed.
(* no two rows at the same x unless the range is empty *)
Lemma plot_xs_distinct lowx highx steps i j : (i < steps)%nat -> (j < steps)%nat -> ~ lowx == highx -> i <> j ->
  ~ nth i (plot_xs lowx highx steps) 0 == nth j (plot_xs lowx highx steps) 0.
Proof.
  intros Hi Hj Hne Hij E. rewrite !plot_xs_nth in E by assumption.
  assert (Hs : 0 < inject_Z (Z.of_nat steps)) by (unfold Qlt; cbn; lia).
  set (s := inject_Z (Z.of_nat steps)) in *. set (d := highx - lowx) in *.
  assert (E2 : inject_Z (Z.of_nat i) * d == inject_Z (Z.of_nat j) * d).
  { assert (E3 : inject_Z (Z.of_nat i) * d / s == inject_Z (Z.of_nat j) * d / s) by lra.
    assert (Hs' : ~ s == 0) by lra.
    rewrite <- (Qmult_div_r (inject_Z (Z.of_nat i) * d) s Hs'), <- (Qmult_div_r (inject_Z (Z.of_nat j) * d) s Hs').
    unfold Qdiv in *. rewrite E3. reflexivity. }
  assert (Hd : ~ d == 0) by (unfold d; lra).
  apply Qmult_inj_r in E2; [|exact Hd]. apply Hij. unfold Qeq in E2. cbn in E2. lia.
Qed.
Lemma plot_xs_range lowx highx steps i : (i < steps)%nat -> lowx < highx ->
  lowx <= nth i (plot_xs lowx highx steps) 0 /\ nth i (plot_xs lowx highx steps) 0 < highx.
Proof.
  intros Hi Hlt. rewrite plot_xs_nth by exact Hi.
  assert (Hs : 0 < inject_Z (Z.of_nat steps)) by (unfold Qlt; cbn; lia).
  assert (Hi0 : 0 <= inject_Z (Z.of_nat i)) by (unfold Qle; cbn; lia).
  assert (Hi1 : inject_Z (Z.of_nat i) < inject_Z (Z.of_nat steps)) by (unfold Qlt; cbn; lia).
  set (s := inject_Z (Z.of_nat steps)) in *. set (k := inject_Z (Z.of_nat i)) in *.
  assert (E : k * (highx - lowx) / s == (k / s) * (highx - lowx)) by (field; lra).
  rewrite E. assert (H0 : 0 <= k / s) by (apply Qle_shift_div_l; lra). assert (H1 : k / s < 1) by (apply Qlt_shift_div_r; lra).
  split; nra.
Qed.

(* ------------------------------------------------------------------ Cubic_Spline_Table_Form over the reals *)
Local Close Scope Q_scope.
Local Open Scope R_scope.
Fixpoint polyR (c : list R) (t : R) : R := match c with [] => 0 | a :: r => a + t * polyR r t end.
Fixpoint polyR_d (c : list R) (t : R) : R := match c with [] => 0 | _ :: r => polyR r t + t * polyR_d r t end.
Fixpoint polyR_d2 (c : list R) (t : R) : R := match c with [] => 0 | _ :: r => 2 * polyR_d r t + t * polyR_d2 r t end.

Lemma polyR_derive c t : is_derive (polyR c) t (polyR_d c t).
Proof.
  induction c as [|a r IH]; cbn [polyR polyR_d]; [apply @is_derive_const|].
  evar_last.
  - apply @is_derive_plus; [apply @is_derive_const|].
    apply (is_derive_mult (fun t => t) (polyR r) t 1 (polyR_d r t)); [apply @is_derive_id|exact IH|intros; apply Rmult_comm].
  - unfold plus, zero, mult, one; simpl. ring.
Qed.
Lemma polyR_d_derive c t : is_derive (polyR_d c) t (polyR_d2 c t).
Proof.
  induction c as [|a r IH]; cbn [polyR_d polyR_d2]; [apply @is_derive_const|].
  evar_last.
  - apply @is_derive_plus; [apply polyR_derive|].
    apply (is_derive_mult (fun t => t) (polyR_d r) t 1 (polyR_d2 r t)); [apply @is_derive_id|exact IH|intros; apply Rmult_comm].
  - unfold plus, zero, mult, one; simpl. ring.
Qed.

Fixpoint pp_selectR (ps : list piece) (x : R) (cur : option piece) : option piece :=
  match ps with
  | [] => cur
  | p :: r => if Rlt_dec x (Q2R (fst p)) then cur else pp_selectR r x (Some p)
  end.
Definition tf_evalR (ev : list R -> R -> R) (tf : table_form) (x : R) : R :=
  if Rlt_dec x (Q2R (tf_xmin tf)) then 0
  else if Rlt_dec (Q2R (tf_xmax tf)) x then 0
  else match pp_selectR (tf_pieces tf) x None with
       | None => 0
       | Some (x0, c) => ev (map Q2R c) (x - Q2R x0)
       end.

(* the rational model evaluated by the correspondence check is this real function at rational points *)
Lemma Q2R_poly c t : Q2R (poly c t) = polyR (map Q2R c) (Q2R t).
Proof. induction c as [|a r IH]; cbn [poly polyR map]; [apply RMicromega.Q2R_0|]. rewrite Q2R_plus, Q2R_mult, IH. reflexivity. Qed.
Lemma Q2R_poly_d c t : Q2R (poly_d c t) = polyR_d (map Q2R c) (Q2R t).
Proof. induction c as [|a r IH]; cbn [poly_d polyR_d map]; [apply RMicromega.Q2R_0|]. rewrite Q2R_plus, Q2R_mult, IH, Q2R_poly. reflexivity. Qed.
Lemma Q2R_poly_d2 c t : Q2R (poly_d2 c t) = polyR_d2 (map Q2R c) (Q2R t).
Proof.
  induction c as [|a r IH]; cbn [poly_d2 polyR_d2 map]; [apply RMicromega.Q2R_0|]. rewrite Q2R_plus, !Q2R_mult, IH, Q2R_poly_d.
  replace (Q2R (2 # 1)) with 2 by (unfold Q2R; simpl; Lra.lra). reflexivity.
Qed.
Lemma pp_select_Q2R ps x cur : pp_selectR ps (Q2R x) cur = pp_select ps x cur.
Proof.
  revert cur. induction ps as [|p r IH]; intro cur; cbn [pp_select pp_selectR]; [reflexivity|].
  destruct (Qlt_le_dec x (fst p)) as [H|H]; destruct (Rlt_dec (Q2R x) (Q2R (fst p))) as [H'|H']; try reflexivity; try apply IH.
  - exfalso. apply H'. apply Qlt_Rlt, H.
  - exfalso. apply Rlt_Qlt in H'. apply (Qlt_irrefl x). eapply Qlt_le_trans; eassumption.
Qed.
Lemma tf_eval_Q2R evq evr tf x : (forall c t, Q2R (evq c t) = evr (map Q2R c) (Q2R t)) ->
  Q2R (tf_eval evq tf x) = tf_evalR evr tf (Q2R x).
Proof.
  intro Hev. unfold tf_eval, tf_evalR. rewrite pp_select_Q2R.
  destruct (Qlt_le_dec x (tf_xmin tf)) as [H|H]; destruct (Rlt_dec (Q2R x) (Q2R (tf_xmin tf))) as [H'|H']; try apply RMicromega.Q2R_0.
  - exfalso. apply H', Qlt_Rlt, H.
  - exfalso. apply Rlt_Qlt in H'. apply (Qlt_irrefl x). eapply Qlt_le_trans; eassumption.
  - destruct (Qlt_le_dec (tf_xmax tf) x) as [G|G]; destruct (Rlt_dec (Q2R (tf_xmax tf)) (Q2R x)) as [G'|G']; try apply RMicromega.Q2R_0.
    + exfalso. apply G', Qlt_Rlt, G.
    + exfalso. apply Rlt_Qlt in G'. apply (Qlt_irrefl x). eapply Qle_lt_trans; eassumption.
    + destruct (pp_select (tf_pieces tf) x None) as [[x0 c]|]; [|apply RMicromega.Q2R_0]. rewrite Hev, Q2R_minus. reflexivity.
Qed.

(* zero outside the data range: value and both derivatives *)
Lemma tf_outside ev tf x : x < Q2R (tf_xmin tf) \/ Q2R (tf_xmax tf) < x -> tf_evalR ev tf x = 0.
Proof.
  intros [H|H]; unfold tf_evalR; destruct (Rlt_dec x (Q2R (tf_xmin tf))); try reflexivity; [contradiction|].
  destruct (Rlt_dec (Q2R (tf_xmax tf)) x); [reflexivity|contradiction].
Qed.

(* away from the knots and the two ends the selected piece is locally constant *)
Definition off_knots (tf : table_form) (x : R) : Prop :=
  x <> Q2R (tf_xmin tf) /\ x <> Q2R (tf_xmax tf) /\ Forall (fun p => x <> Q2R (fst p)) (tf_pieces tf).

Lemma Rlt_dec_local a x : x <> a -> exists eps : posreal, forall y, Rabs (y - x) < eps ->
  (if Rlt_dec y a then true else false) = (if Rlt_dec x a then true else false).
Proof.
  intro Hne. assert (Hp : 0 < Rabs (a - x)) by (apply Rabs_pos_lt; Lra.lra).
  exists (mkposreal _ Hp). intros y Hy. simpl in Hy.
  destruct (Rlt_dec y a) as [H1|H1]; destruct (Rlt_dec x a) as [H2|H2]; try reflexivity; exfalso;
    revert Hy; unfold Rabs; destruct (Rcase_abs (y - x)); destruct (Rcase_abs (a - x)); Lra.lra.
Qed.
Lemma Rgt_dec_local a x : x <> a -> exists eps : posreal, forall y, Rabs (y - x) < eps ->
  (if Rlt_dec a y then true else false) = (if Rlt_dec a x then true else false).
Proof.
  intro Hne. assert (Hp : 0 < Rabs (a - x)) by (apply Rabs_pos_lt; Lra.lra).
  exists (mkposreal _ Hp). intros y Hy. simpl in Hy.
  destruct (Rlt_dec a y) as [H1|H1]; destruct (Rlt_dec a x) as [H2|H2]; try reflexivity; exfalso;
    revert Hy; unfold Rabs; destruct (Rcase_abs (y - x)); destruct (Rcase_abs (a - x)); Lra.lra.
Qed.
Lemma pp_select_local ps x : Forall (fun p => x <> Q2R (fst p)) ps ->
  exists eps : posreal, forall y, Rabs (y - x) < eps -> forall cur, pp_selectR ps y cur = pp_selectR ps x cur.
Proof.
  induction ps as [|p r IH]; intro H.
  - exists (mkposreal 1 Rlt_0_1). reflexivity.
  - inversion H as [|? ? Hp Hr]; subst. destruct (IH Hr) as [e1 H1]. destruct (Rlt_dec_local _ _ Hp) as [e2 H2].
    assert (Hm : 0 < Rmin e1 e2) by (apply Rmin_pos; [apply e1|apply e2]).
    exists (mkposreal _ Hm). intros y Hy cur. simpl in Hy. cbn [pp_selectR].
    specialize (H2 y ltac:(eapply Rlt_le_trans; [exact Hy|apply Rmin_r])).
    destruct (Rlt_dec y (Q2R (fst p))); destruct (Rlt_dec x (Q2R (fst p))); try discriminate; [reflexivity|].
    apply H1. eapply Rlt_le_trans; [exact Hy|apply Rmin_l].
Qed.
Lemma tf_eval_local ev tf x : off_knots tf x ->
  exists eps : posreal, forall y, Rabs (y - x) < eps ->
    tf_evalR ev tf y =
      (if Rlt_dec x (Q2R (tf_xmin tf)) then 0 else if Rlt_dec (Q2R (tf_xmax tf)) x then 0
       else match pp_selectR (tf_pieces tf) x None with None => 0 | Some (x0, c) => ev (map Q2R c) (y - Q2R x0) end).
Proof.
  intros (Hmin & Hmax & Hk). destruct (Rlt_dec_local _ _ Hmin) as [e1 H1]. destruct (Rgt_dec_local _ _ Hmax) as [e2 H2].
  destruct (pp_select_local _ _ Hk) as [e3 H3].
  assert (Hm : 0 < Rmin e1 (Rmin e2 e3)) by (repeat apply Rmin_pos; [apply e1|apply e2|apply e3]).
  exists (mkposreal _ Hm). intros y Hy. simpl in Hy. unfold tf_evalR.
  specialize (H1 y ltac:(eapply Rlt_le_trans; [exact Hy|apply Rmin_l])).
  specialize (H2 y ltac:(eapply Rlt_le_trans; [exact Hy|eapply Rle_trans; [apply Rmin_r|apply Rmin_l]])).
  specialize (H3 y ltac:(eapply Rlt_le_trans; [exact Hy|eapply Rle_trans; [apply Rmin_r|apply Rmin_r]]) None).
  rewrite H3.
  destruct (Rlt_dec y (Q2R (tf_xmin tf))); destruct (Rlt_dec x (Q2R (tf_xmin tf))); try discriminate; [reflexivity|].
  destruct (Rlt_dec (Q2R (tf_xmax tf)) y); destruct (Rlt_dec (Q2R (tf_xmax tf)) x); try discriminate; reflexivity.
Qed.

(* deriv / deriv2 are the true derivatives of the interpolant (and of its derivative) wherever it is a single
   polynomial piece or zero -- i.e. everywhere except at the knots and the two ends of the data range *)
Lemma tf_derive_gen ev ev' tf x : (forall c t, is_derive (ev c) t (ev' c t)) -> off_knots tf x ->
  is_derive (tf_evalR ev tf) x (tf_evalR ev' tf x).
Proof.
  intros Hev Hoff. destruct (tf_eval_local ev tf x Hoff) as [eps Heps].
  apply (is_derive_ext_loc (fun y => if Rlt_dec x (Q2R (tf_xmin tf)) then 0 else if Rlt_dec (Q2R (tf_xmax tf)) x then 0
       else match pp_selectR (tf_pieces tf) x None with None => 0 | Some (x0, c) => ev (map Q2R c) (y - Q2R x0) end)).
  - exists eps. intros y Hy. symmetry. apply Heps. exact Hy.
  - unfold tf_evalR. destruct (Rlt_dec x (Q2R (tf_xmin tf))); [apply @is_derive_const|].
    destruct (Rlt_dec (Q2R (tf_xmax tf)) x); [apply @is_derive_const|].
    destruct (pp_selectR (tf_pieces tf) x None) as [[x0 c]|]; [|apply @is_derive_const].
    evar_last.
    + apply (is_derive_comp (ev (map Q2R c)) (fun y => y - Q2R x0) x (ev' (map Q2R c) (x - Q2R x0)) 1); [apply Hev|].
      evar_last; [apply @is_derive_minus; [apply @is_derive_id|apply @is_derive_const]|]. unfold minus, plus, opp, one, zero; simpl. ring.
    + unfold scal; simpl. unfold mult, one; simpl. ring.
Qed.
