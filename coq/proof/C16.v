(* C16: the accepted models are exactly the well-formed ones; every catalogue malformation is refused; the outcome is
   a table or a configuration error. *)
From V Require Import lib.Common model.Validate.
Local Open Scope Z_scope.

(* ------------------------------------------------------------------ induction over definitions *)
Section DefnInd.
  Variables (P : defn -> Prop) (Q : part -> Prop).
  Hypothesis HD : forall parts, Forall (fun sp => Q (snd sp)) parts -> P (Defn parts).
  Hypothesis HI : forall i, Q (PInst i).
  Hypothesis HM : forall m args, Forall P args -> Q (PMod m args).
  Fixpoint defn_ind' (d : defn) : P d :=
    match d with
    | Defn parts => HD parts ((fix f (l : list (Z * part)) : Forall (fun sp => Q (snd sp)) l :=
                                match l with [] => Forall_nil _ | sp :: r => Forall_cons sp (part_ind' (snd sp)) (f r) end) parts)
    end
  with part_ind' (p : part) : Q p :=
    match p with
    | PInst i => HI i
    | PMod m args => HM m args ((fix f (l : list defn) : Forall P l :=
                                   match l with [] => Forall_nil _ | d :: r => Forall_cons d (defn_ind' d) (f r) end) args)
    end.
End DefnInd.

(* ------------------------------------------------------------------ the grammar of the manual, declaratively *)
Definition wf_inst (i : inst) : Prop :=
  (exists c n, i_label i = LForm c (Fixed n) /\ length (i_params i) = n) \/ (exists c, i_label i = LForm c VarArgs).
Definition wf_shift (d : defn) : Prop :=
  exists s c a x rest, d = Defn ((s, PInst {| i_label := LForm c a; i_params := [x] |}) :: rest) /\ c = true.
Definition wf_spline_mid (s2 s3 : Z) (p : part) : Prop :=
  p = PInst {| i_label := LExpSpline; i_params := [] |} \/
  exists rmin, p = PInst {| i_label := LBuck4Spline; i_params := [rmin] |} /\ s2 < rmin < s3.

Fixpoint wf_defn (d : defn) : Prop :=
  match d with
  | Defn parts => parts <> [] /\ (fix all (l : list (Z * part)) : Prop := match l with [] => True | sp :: r => wf_part (snd sp) /\ all r end) parts
  end
with wf_part (p : part) : Prop :=
  match p with
  | PInst i => wf_inst i
  | PMod m args =>
      let all_wf := (fix all (l : list defn) : Prop := match l with [] => True | d :: r => wf_defn d /\ all r end) in
      match m with
      | MSum | MProduct | MPow => args <> [] /\ all_wf args
      | MTrans => match args with [a; b] => wf_defn a /\ wf_shift b | _ => False end
      | MSpline => match args with
                   | [Defn [(s1, p1); (s2, p2); (s3, p3)]] => s1 < s2 /\ s2 < s3 /\ wf_spline_mid s2 s3 p2 /\ wf_part p1 /\ wf_part p3
                   | _ => False
                   end
      | MUnknownMod => False
      end
  end.

Lemma ok_inst_wf i : ok_inst i = true <-> wf_inst i.
Proof.
  unfold ok_inst, wf_inst. destruct i as [l ps]. cbn [i_label i_params]. destruct l as [c [n|]| | |].
  - rewrite Nat.eqb_eq. split; [intro H; left; exists c, n; auto|intros [(c' & n' & E & L)|(c' & E)]; [injection E as <- <-; exact L|discriminate]].
  - split; [intros _; right; exists c; reflexivity|reflexivity].
  - split; [discriminate|intros [(? & ? & E & _)|(? & E)]; discriminate].
  - split; [discriminate|intros [(? & ? & E & _)|(? & E)]; discriminate].
  - split; [discriminate|intros [(? & ? & E & _)|(? & E)]; discriminate].
Qed.
Lemma is_shift_wf d : is_shift d = true <-> wf_shift d.
Proof.
  unfold is_shift, wf_shift. destruct d as [[|[s [i|m args]] rest]].
  - split; [discriminate|intros (? & ? & ? & ? & ? & E & _); discriminate].
  - destruct i as [[c a| | |] ps]; cbn [i_label i_params].
    + destruct c.
      * rewrite Nat.eqb_eq. split.
        -- intro L. destruct ps as [|x [|? ?]]; try discriminate. exists s, true, a, x, rest. auto.
        -- intros (? & ? & ? & ? & ? & E & _). injection E as E1 E2 E3 E4 E5. subst. reflexivity.
      * split; [discriminate|intros (? & ? & ? & ? & ? & E & C); injection E as E1 E2 E3 E4 E5; subst; discriminate].
    + split; [discriminate|intros (? & ? & ? & ? & ? & E & _); discriminate].
    + split; [discriminate|intros (? & ? & ? & ? & ? & E & _); discriminate].
    + split; [discriminate|intros (? & ? & ? & ? & ? & E & _); discriminate].
  - split; [discriminate|intros (? & ? & ? & ? & ? & E & _); discriminate].
Qed.
Lemma ok_spline_mid_wf s2 s3 p : ok_spline_mid s2 s3 p = true <-> wf_spline_mid s2 s3 p.
Proof.
  unfold ok_spline_mid, wf_spline_mid. destruct p as [[l ps]|m args]; cbn [i_label i_params].
  - destruct l as [c a| | |].
    + split; [discriminate|intros [E|(r & E & _)]; discriminate].
    + destruct ps as [|x ps]; [split; [left; reflexivity|reflexivity]|split; [discriminate|intros [E|(r & E & _)]; discriminate]].
    + destruct ps as [|x [|y ps]].
      * split; [discriminate|intros [E|(r & E & _)]; discriminate].
      * rewrite andb_true_iff, !Z.ltb_lt. split; [intro H; right; exists x; auto|intros [E|(r & E & H)]; [discriminate|injection E as ->; exact H]].
      * split; [discriminate|intros [E|(r & E & _)]; discriminate].
    + split; [discriminate|intros [E|(r & E & _)]; discriminate].
  - split; [discriminate|intros [E|(r & E & _)]; discriminate].
Qed.

(* the implementation's checks accept exactly the grammar *)
Definition Qeq (p : part) : Prop := ok_part p = true <-> wf_part p.
Definition Peq (d : defn) : Prop := match d with Defn parts => Forall (fun sp => Qeq (snd sp)) parts end.
Lemma defn_equiv d : Peq d -> (ok_defn d = true <-> wf_defn d).
Proof.
  destruct d as [parts]. cbn [Peq ok_defn wf_defn]. intro IH. rewrite andb_true_iff, negb_true_iff.
  assert (Hn : is_nil parts = false <-> parts <> []) by (destruct parts; cbn; split; congruence).
  rewrite Hn. apply and_iff_compat_l. clear Hn.
  induction IH as [|sp r Hsp _ IHr]; [split; auto|]. destruct sp as [s p]. cbn [snd] in *. unfold Qeq in Hsp. rewrite andb_true_iff, Hsp, IHr. reflexivity.
Qed.
Lemma all_equiv args : Forall Peq args ->
  ((fix all (l : list defn) : bool := match l with [] => true | d :: r => ok_defn d && all r end) args = true <->
   (fix all (l : list defn) : Prop := match l with [] => True | d :: r => wf_defn d /\ all r end) args).
Proof. intro IH. induction IH as [|d r Hd _ IHr]; [split; auto|]. rewrite andb_true_iff, (defn_equiv d Hd), IHr. reflexivity. Qed.

Lemma part_equiv : forall p, Qeq p.
Proof.
  apply (part_ind' Peq Qeq).
  - intros parts IH. exact IH.
  - intro i. unfold Qeq. cbn [ok_part wf_part]. apply ok_inst_wf.
  - intros m args IH. unfold Qeq.
    pose proof (all_equiv args IH) as Hall.
    assert (Hn : is_nil args = false <-> args <> []) by (destruct args; cbn; split; congruence).
    destruct m; cbn [ok_part wf_part].
    + rewrite andb_true_iff, negb_true_iff, Hn, Hall. reflexivity.
    + rewrite andb_true_iff, negb_true_iff, Hn, Hall. reflexivity.
    + rewrite andb_true_iff, negb_true_iff, Hn, Hall. reflexivity.
    + destruct args as [|a [|b [|c r]]]; try (split; [discriminate|intros []]).
      inversion IH as [|? ? Ha IH']; subst. rewrite andb_true_iff, (defn_equiv a Ha), is_shift_wf. reflexivity.
    + destruct args as [|[parts] [|d2 l2]]; [split; [discriminate|intros []]| |destruct parts as [|[? ?] [|[? ?] [|[? ?] [|? ?]]]]; cbn; (split; [discriminate|intros []])].
      destruct parts as [|[s1 p1] [|[s2 p2] [|[s3 p3] [|? ?]]]]; try (split; [discriminate|intros []]).
      inversion IH as [|? ? Hd _]; subst. cbn [Peq] in Hd.
      inversion Hd as [|? ? H1 Hd']; subst. inversion Hd' as [|? ? _ Hd'']; subst. inversion Hd'' as [|? ? H3 _]; subst. cbn [snd] in H1, H3. unfold Qeq in H1, H3.
      rewrite !andb_true_iff, !Z.ltb_lt, ok_spline_mid_wf, H1, H3. tauto.
    + split; [discriminate|intros []].
Qed.
Theorem accepts_defn_iff d : ok_defn d = true <-> wf_defn d.
Proof.
  apply defn_equiv. destruct d as [parts]. cbn [Peq]. apply Forall_forall. intros sp _. apply part_equiv.
Qed.

(* ------------------------------------------------------------------ whole models *)
Definition wf_entries {K} (goodk : K -> Prop) (s : option (list (K * defn))) : Prop :=
  exists l, s = Some l /\ Forall (fun kd => goodk (fst kd) /\ wf_defn (snd kd)) l.
Definition wf_model (m : model) : Prop :=
  Forall (fun t => t = TabOk) (m_tables m) /\
  wf_entries (fun b => b = true) (m_pair m) /\
  match m_target m with
  | None | Some TPair => True
  | Some TEam => wf_entries (fun b => b = true) (m_embed m) /\ wf_entries (fun k => k = KPlain) (m_density m)
  | Some TFs => wf_entries (fun b => b = true) (m_embed m) /\ wf_entries (fun k => k = KArrow) (m_density m)
  | Some TAdp => wf_entries (fun b => b = true) (m_embed m) /\ wf_entries (fun k => k = KPlain) (m_density m) /\
                 wf_entries (fun b => b = true) (m_dipole m) /\ wf_entries (fun b => b = true) (m_quadrupole m)
  | Some TUnknown => False
  end.

Lemma section_ok_iff {K} (okk : K -> bool) (goodk : K -> Prop) s :
  (forall k, okk k = true <-> goodk k) -> (section_ok okk s = true <-> wf_entries goodk s).
Proof.
  intro Hk. unfold section_ok, wf_entries, all_entries. destruct s as [l|].
  - rewrite forallb_forall. split.
    + intro H. exists l. split; [reflexivity|]. apply Forall_forall. intros kd Hin. specialize (H kd Hin).
      apply andb_true_iff in H. destruct H as [H1 H2]. split; [apply Hk, H1|apply accepts_defn_iff, H2].
    + intros (l' & E & H). injection E as <-. rewrite Forall_forall in H. intros kd Hin. destruct (H kd Hin) as [H1 H2].
      apply andb_true_iff. split; [apply Hk, H1|apply accepts_defn_iff, H2].
  - split; [discriminate|intros (l & E & _); discriminate].
Qed.
Lemma bool_id_iff (b : bool) : b = true <-> b = true. Proof. reflexivity. Qed.
Lemma plain_iff k : match k with KPlain => true | _ => false end = true <-> k = KPlain.
Proof. destruct k; split; congruence. Qed.
Lemma arrow_iff k : match k with KArrow => true | _ => false end = true <-> k = KArrow.
Proof. destruct k; split; congruence. Qed.

Theorem accepts_iff_wf m : accepts m = true <-> wf_model m.
Proof.
  unfold accepts, wf_model. rewrite !andb_true_iff.
  rewrite (section_ok_iff (fun b : bool => b) (fun b => b = true) (m_pair m) bool_id_iff).
  assert (Ht : forallb (fun t => match t with TabOk => true | _ => false end) (m_tables m) = true <-> Forall (fun t => t = TabOk) (m_tables m)).
  { rewrite forallb_forall, Forall_forall. split; intros H t Hin; specialize (H t Hin); destruct t; congruence. }
  rewrite Ht. rewrite and_assoc. apply and_iff_compat_l. apply and_iff_compat_l.
  destruct (m_target m) as [[| | | |]|].
  - tauto.
  - rewrite andb_true_iff, (section_ok_iff _ _ (m_embed m) bool_id_iff), (section_ok_iff _ _ (m_density m) plain_iff). reflexivity.
  - rewrite andb_true_iff, (section_ok_iff _ _ (m_embed m) bool_id_iff), (section_ok_iff _ _ (m_density m) arrow_iff). reflexivity.
  - rewrite !andb_true_iff, (section_ok_iff _ _ (m_embed m) bool_id_iff), (section_ok_iff _ _ (m_density m) plain_iff),
      (section_ok_iff _ _ (m_dipole m) bool_id_iff), (section_ok_iff _ _ (m_quadrupole m) bool_id_iff). tauto.
  - split; [discriminate|intros []].
  - tauto.
Qed.

(* a table is written exactly for the well-formed models; everything else is a configuration error; nothing else happens *)
Theorem validate_spec m : (wf_model m -> validate m = Ok tt) /\ (~ wf_model m -> validate m = CfgErr) /\ validate m <> Internal.
Proof.
  unfold validate. pose proof (accepts_iff_wf m) as H. destruct (accepts m); repeat split; try discriminate; intro W.
  - exfalso. apply W, H. reflexivity.
  - apply H in W. discriminate.
Qed.

(* ------------------------------------------------------------------ the catalogue of malformations *)
(* an invalid piece anywhere invalidates what contains it *)
Lemma ok_defn_parts parts : ok_defn (Defn parts) = true -> forall s p, In (s, p) parts -> ok_part p = true.
Proof.
  cbn [ok_defn]. rewrite andb_true_iff. intros [_ H]. induction parts as [|[s0 p0] r IH]; intros s p Hin; [destruct Hin|].
  apply andb_true_iff in H. destruct H as [H0 Hr]. destruct Hin as [E|Hin]; [injection E as <- <-; exact H0|exact (IH Hr s p Hin)].
Qed.
Lemma ok_reduce_args m args : (m = MSum \/ m = MProduct \/ m = MPow) -> ok_part (PMod m args) = true -> forall d, In d args -> ok_defn d = true.
Proof.
  intros Hm H. assert (Hall : (fix all (l : list defn) : bool := match l with [] => true | d :: r => ok_defn d && all r end) args = true).
  { destruct Hm as [->|[->| ->]]; cbn [ok_part] in H; apply andb_true_iff in H; apply H. }
  clear H. induction args as [|a r IH]; intros d Hin; [destruct Hin|]. apply andb_true_iff in Hall. destruct Hall as [Ha Hr].
  destruct Hin as [<-|Hin]; [exact Ha|exact (IH Hr d Hin)].
Qed.
Lemma ok_trans_first a b : ok_part (PMod MTrans [a; b]) = true -> ok_defn a = true /\ is_shift b = true.
Proof. cbn [ok_part]. apply andb_true_iff. Qed.
Lemma ok_spline_parts s1 p1 s2 p2 s3 p3 : ok_part (PMod MSpline [Defn [(s1, p1); (s2, p2); (s3, p3)]]) = true ->
  s1 < s2 /\ s2 < s3 /\ ok_spline_mid s2 s3 p2 = true /\ ok_part p1 = true /\ ok_part p3 = true.
Proof. cbn [ok_part]. rewrite !andb_true_iff, !Z.ltb_lt. tauto. Qed.

(* instances *)
Lemma bad_arity c n ps : length ps <> n -> ok_part (PInst {| i_label := LForm c (Fixed n); i_params := ps |}) = false.
Proof. intro H. cbn. apply Nat.eqb_neq, H. Qed.
Lemma bad_label ps : ok_part (PInst {| i_label := LUnknown; i_params := ps |}) = false /\
                     ok_part (PInst {| i_label := LExpSpline; i_params := ps |}) = false /\
                     ok_part (PInst {| i_label := LBuck4Spline; i_params := ps |}) = false.
Proof. repeat split. Qed.
(* modifiers *)
Lemma bad_modifier args : ok_part (PMod MUnknownMod args) = false.
Proof. reflexivity. Qed.
Lemma bad_trans_count args : length args <> 2%nat -> ok_part (PMod MTrans args) = false.
Proof. destruct args as [|a [|b [|c r]]]; cbn; intro H; try reflexivity. exfalso. apply H. reflexivity. Qed.
Lemma bad_trans_shift a b : is_shift b = false -> ok_part (PMod MTrans [a; b]) = false.
Proof. intro H. cbn [ok_part]. rewrite H. apply andb_false_r. Qed.
Lemma bad_spline_arg_count args : length args <> 1%nat -> ok_part (PMod MSpline args) = false.
Proof. destruct args as [|[parts] [|b r]]; cbn [length]; intro H; try reflexivity; [exfalso; apply H; reflexivity|]. cbn [ok_part]. destruct parts as [|[? ?] [|[? ?] [|[? ?] [|? ?]]]]; reflexivity. Qed.
Lemma bad_spline_part_count parts : length parts <> 3%nat -> ok_part (PMod MSpline [Defn parts]) = false.
Proof. destruct parts as [|[? ?] [|[? ?] [|[? ?] [|? ?]]]]; cbn [length]; intro H; try reflexivity. exfalso. apply H. reflexivity. Qed.
Lemma bad_spline_mid s1 p1 s2 p2 s3 p3 : ok_spline_mid s2 s3 p2 = false -> ok_part (PMod MSpline [Defn [(s1, p1); (s2, p2); (s3, p3)]]) = false.
Proof. intro H. cbn [ok_part]. rewrite H. rewrite andb_false_r. reflexivity. Qed.
Lemma bad_spline_order s1 p1 s2 p2 s3 p3 : s2 <= s1 \/ s3 <= s2 -> ok_part (PMod MSpline [Defn [(s1, p1); (s2, p2); (s3, p3)]]) = false.
Proof.
  intro H. cbn [ok_part]. destruct (s1 <? s2) eqn:E1; [|reflexivity]. destruct (s2 <? s3) eqn:E2; [|reflexivity].
  apply Z.ltb_lt in E1, E2. lia.
Qed.
Lemma spline_mid_cases s2 s3 :
  (forall ps, ps <> [] -> ok_spline_mid s2 s3 (PInst {| i_label := LExpSpline; i_params := ps |}) = false) /\
  (forall ps, length ps <> 1%nat -> ok_spline_mid s2 s3 (PInst {| i_label := LBuck4Spline; i_params := ps |}) = false) /\
  (forall rmin, rmin <= s2 \/ s3 <= rmin -> ok_spline_mid s2 s3 (PInst {| i_label := LBuck4Spline; i_params := [rmin] |}) = false) /\
  (forall c a ps, ok_spline_mid s2 s3 (PInst {| i_label := LForm c a; i_params := ps |}) = false) /\
  (forall m args, ok_spline_mid s2 s3 (PMod m args) = false).
Proof.
  repeat split.
  - intros [|x r] H; [congruence|reflexivity].
  - intros [|x [|y r]] H; cbn; try reflexivity. exfalso. apply H. reflexivity.
  - intros rmin H. cbn. destruct (s2 <? rmin) eqn:E1; [|reflexivity]. destruct (rmin <? s3) eqn:E2; [|reflexivity]. apply Z.ltb_lt in E1, E2. lia.
Qed.

(* entries, sections, targets, tables *)
Lemma accepts_entries m : accepts m = true ->
  exists l, m_pair m = Some l /\ forall k d, In (k, d) l -> k = true /\ ok_defn d = true.
Proof.
  unfold accepts. rewrite !andb_true_iff. intros [[_ H] _]. unfold section_ok in H. destruct (m_pair m) as [l|]; [|discriminate].
  exists l. split; [reflexivity|]. unfold all_entries in H. rewrite forallb_forall in H. intros k d Hin. specialize (H _ Hin).
  cbn [fst snd] in H. apply andb_true_iff in H. exact H.
Qed.
Lemma refused_unknown_target m : m_target m = Some TUnknown -> validate m = CfgErr.
Proof. intro H. unfold validate, accepts. rewrite H. rewrite andb_false_r. reflexivity. Qed.
Lemma refused_no_pair m : m_pair m = None -> validate m = CfgErr.
Proof. intro H. unfold validate, accepts. rewrite H. cbn [section_ok]. rewrite andb_false_r. reflexivity. Qed.
Lemma refused_bad_table m : In TabBadData (m_tables m) \/ In TabBadInterp (m_tables m) -> validate m = CfgErr.
Proof.
  intro H. unfold validate, accepts.
  assert (E : forallb (fun t => match t with TabOk => true | _ => false end) (m_tables m) = false).
  { destruct (forallb _ (m_tables m)) eqn:F; [|reflexivity]. rewrite forallb_forall in F. destruct H as [H|H]; specialize (F _ H); discriminate. }
  rewrite E. reflexivity.
Qed.
Lemma refused_eam_sections m : (m_target m = Some TEam \/ m_target m = Some TFs \/ m_target m = Some TAdp) ->
  (m_embed m = None \/ m_density m = None) -> validate m = CfgErr.
Proof.
  intros Ht Hs. unfold validate. destruct (accepts m) eqn:A; [|reflexivity]. exfalso. unfold accepts in A.
  destruct Ht as [Ht|[Ht|Ht]]; rewrite Ht in A; rewrite !andb_true_iff in A; destruct Hs as [Hs|Hs]; rewrite Hs in A; cbn [section_ok] in A; intuition discriminate.
Qed.
Lemma refused_adp_sections m : m_target m = Some TAdp -> (m_dipole m = None \/ m_quadrupole m = None) -> validate m = CfgErr.
Proof.
  intros Ht Hs. unfold validate. destruct (accepts m) eqn:A; [|reflexivity]. exfalso. unfold accepts in A.
  rewrite Ht in A; rewrite !andb_true_iff in A; destruct Hs as [Hs|Hs]; rewrite Hs in A; cbn [section_ok] in A; intuition discriminate.
Qed.
Lemma refused_density_key_style m l k d : In (k, d) l -> m_density m = Some l ->
  (m_target m = Some TEam /\ k <> KPlain) \/ (m_target m = Some TFs /\ k <> KArrow) \/ (m_target m = Some TAdp /\ k <> KPlain) -> validate m = CfgErr.
Proof.
  intros Hin Hd Ht. unfold validate. destruct (accepts m) eqn:A; [|reflexivity]. exfalso.
  unfold accepts in A. rewrite Hd in A. rewrite !andb_true_iff in A. destruct A as [_ A].
  destruct Ht as [[Ht Hk]|[[Ht Hk]|[Ht Hk]]]; rewrite Ht in A; rewrite ?andb_true_iff in A;
    [destruct A as [_ A]|destruct A as [_ A]|destruct A as [[[_ A] _] _]];
    cbn [section_ok] in A; unfold all_entries in A; rewrite forallb_forall in A; specialize (A _ Hin); cbn [fst] in A;
    apply andb_true_iff in A; destruct A as [A _]; destruct k; congruence.
Qed.
