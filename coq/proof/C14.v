(* C14: overrides / additions / removals equal editing the file by hand. *)
From V Require Import lib.Common model.Store.
Local Open Scope nat_scope.

Section C14.
  Variable V : Type.
  Notation rawfile := (rawfile V). Notation store := (store V). Notation op := (op V).

  (* ---- forgetting the spelling commutes with the edits ---- *)
  Lemma forget_raw_update s (g : list (entry V) -> list (entry V)) (g' : list (key * V) -> list (key * V)) (f : rawfile) :
    (forall es, map (forget_entry V) (g es) = g' (map (forget_entry V) es)) ->
    forget (raw_update s g f) = update_sect s g' (forget f).
  Proof.
    intro H. induction f as [|[s0 es] f IH]; [reflexivity|]. cbn [raw_update forget map update_sect fst snd].
    destruct (sect_eqb s0 s); cbn [map fst snd]; [rewrite H; reflexivity|]. f_equal. exact IH.
  Qed.

  Lemma forget_raw_set k sp (v : V) es : map (forget_entry V) (raw_set k sp v es) = set_key k v (map (forget_entry V) es).
  Proof.
    induction es as [|e es IH]; [reflexivity|]. cbn [raw_set map set_key forget_entry fst].
    destruct (key_eqb (e_key e) k) eqn:E; cbn [map forget_entry e_key e_val]; [apply key_eqb_eq in E; subst; reflexivity|].
    f_equal. exact IH.
  Qed.

  Lemma forget_raw_del k (es : list (entry V)) :
    map (forget_entry V) (filter (fun e => negb (key_eqb (e_key e) k)) es) = del_key k (map (forget_entry V) es).
  Proof.
    unfold del_key. induction es as [|e es IH]; [reflexivity|]. cbn [filter map forget_entry fst].
    destruct (key_eqb (e_key e) k); cbn [negb map]; [exact IH|]. f_equal. exact IH.
  Qed.

  Lemma forget_drop s (f : rawfile) :
    forget (filter (fun se => negb (sect_eqb (fst se) s && is_nil (snd se))) f) = drop_if_empty s (forget f).
  Proof.
    unfold drop_if_empty. induction f as [|[s0 es] f IH]; [reflexivity|]. cbn [filter forget map fst snd].
    assert (E : is_nil (map (forget_entry V) es) = is_nil es) by (destruct es; reflexivity). rewrite E.
    destruct (negb (sect_eqb s0 s && is_nil es)); cbn [map forget fst snd]; [f_equal; exact IH|exact IH].
  Qed.

  Lemma forget_app (f g : rawfile) : forget (f ++ g) = forget f ++ forget g.
  Proof. unfold forget. apply map_app. Qed.

  Lemma hand_edit_op_commutes (f : rawfile) sp (o : op) :
    match hand_edit_op f sp o with
    | Some f' => apply_op (forget f) o = Ok (forget f')
    | None => apply_op (forget f) o = CfgErr
    end.
  Proof.
    destruct o as [s k v|s k|s k v]; cbn [hand_edit_op apply_op]; unfold raw_has.
    - destruct (has_option s k (forget f)); [|reflexivity].
      rewrite (forget_raw_update s _ (set_key k v)) by (intro; apply forget_raw_set). reflexivity.
    - destruct (has_option s k (forget f)); [|reflexivity].
      rewrite forget_drop, (forget_raw_update s _ (del_key k)) by (intro; apply forget_raw_del). reflexivity.
    - destruct (has_option s k (forget f)); [reflexivity|]. destruct (has_sect s (forget f)).
      + rewrite (forget_raw_update s _ (set_key k v)) by (intro; apply forget_raw_set). reflexivity.
      + rewrite forget_app. reflexivity.
  Qed.

  Theorem hand_edit_commutes (ops : list op) : forall (f : rawfile) sp,
    match hand_edit f sp ops with
    | Some f' => apply_ops (forget f) ops = Ok (forget f')
    | None => apply_ops (forget f) ops = CfgErr
    end.
  Proof.
    induction ops as [|o ops IH]; intros f sp; cbn [hand_edit apply_ops]; [reflexivity|].
    pose proof (hand_edit_op_commutes f sp o) as H. destruct (hand_edit_op f sp o) as [f'|]; rewrite H; [apply IH|reflexivity].
  Qed.

  (* ---- a valid edit of a duplicate-free store is duplicate-free: the edited file parses ---- *)
  Lemma has_key_set_key k (v : V) k' es : has_key k' (set_key k v es) = has_key k' es || key_eqb k k'.
  Proof.
    unfold has_key. induction es as [|[k0 v0] es IH].
    - cbn. rewrite orb_false_r. reflexivity.
    - cbn [set_key fst]. destruct (key_eqb k0 k) eqn:E.
      + apply key_eqb_eq in E. subst. cbn [existsb fst]. destruct (key_eqb k k'); cbn; [reflexivity|rewrite orb_false_r; reflexivity].
      + cbn [existsb fst]. rewrite IH. rewrite orb_assoc. reflexivity.
  Qed.

  Lemma nodup_set_key k (v : V) es : nodup_keys es = true -> nodup_keys (set_key k v es) = true.
  Proof.
    induction es as [|[k0 v0] es IH]; intro H; [reflexivity|].
    change (nodup_keys ((k0, v0) :: es)) with (negb (has_key k0 es) && nodup_keys es) in H.
    apply andb_true_iff in H. destruct H as [H1 H2].
    cbn [set_key fst]. destruct (key_eqb k0 k) eqn:E.
    - apply key_eqb_eq in E. subst k0.
      change (nodup_keys ((k, v) :: es)) with (negb (has_key k es) && nodup_keys es). rewrite H1, H2. reflexivity.
    - change (nodup_keys ((k0, v0) :: set_key k v es)) with (negb (has_key k0 (set_key k v es)) && nodup_keys (set_key k v es)).
      rewrite has_key_set_key, IH by exact H2.
      assert (E' : key_eqb k k0 = false).
      { destruct (key_eqb k k0) eqn:E2; [|reflexivity]. apply key_eqb_eq in E2. subst. rewrite (proj2 (key_eqb_eq k0 k0) eq_refl) in E. discriminate. }
      rewrite E'. apply negb_true_iff in H1. rewrite H1. reflexivity.
  Qed.

  Lemma has_key_del k k' (es : list (key * V)) : has_key k' (del_key k es) = true -> has_key k' es = true.
  Proof.
    unfold del_key, has_key. rewrite !existsb_exists. intros (x & Hx & E). apply filter_In in Hx. exists x. tauto.
  Qed.
  Lemma nodup_del_key k (es : list (key * V)) : nodup_keys es = true -> nodup_keys (del_key k es) = true.
  Proof.
    induction es as [|[k0 v0] es IH]; intro H; [reflexivity|]. cbn [nodup_keys fst] in H. apply andb_true_iff in H. destruct H as [H1 H2].
    unfold del_key in *. cbn [filter fst]. destruct (negb (key_eqb k0 k)); [|apply IH, H2].
    cbn [nodup_keys fst]. rewrite IH by exact H2. rewrite andb_true_r. apply negb_true_iff. apply negb_true_iff in H1.
    destruct (has_key k0 (filter (fun kv => negb (key_eqb (fst kv) k)) es)) eqn:E; [|reflexivity].
    apply has_key_del in E. congruence.
  Qed.

  Definition wf_store (st : store) : bool := nodup_sects st && forallb (fun se => nodup_keys (snd se)) st.

  Lemma has_sect_cons s' s0 (es : list (key * V)) (st : store) : has_sect s' ((s0, es) :: st) = sect_eqb s0 s' || has_sect s' st.
  Proof. reflexivity. Qed.
  Lemma wf_cons s0 (es : list (key * V)) (st : store) :
    wf_store ((s0, es) :: st) = true <-> has_sect s0 st = false /\ nodup_keys es = true /\ wf_store st = true.
  Proof.
    unfold wf_store. cbn [nodup_sects forallb fst snd]. rewrite !andb_true_iff, negb_true_iff. tauto.
  Qed.

  Lemma has_sect_update s s' g (st : store) : has_sect s' (update_sect s g st) = has_sect s' st.
  Proof.
    induction st as [|[s0 es] st IH]; [reflexivity|]. cbn [update_sect fst snd]. destruct (sect_eqb s0 s).
    - rewrite !has_sect_cons. reflexivity.
    - rewrite !has_sect_cons, IH. reflexivity.
  Qed.
  Lemma wf_update s g (st : store) : (forall es, nodup_keys es = true -> nodup_keys (g es) = true) -> wf_store st = true -> wf_store (update_sect s g st) = true.
  Proof.
    intros Hg. induction st as [|[s0 es] st IH]; intro H; [reflexivity|].
    apply wf_cons in H. destruct H as (H1 & H2 & H3). cbn [update_sect fst snd]. destruct (sect_eqb s0 s); apply wf_cons.
    - repeat split; [exact H1|apply Hg, H2|exact H3].
    - repeat split; [rewrite has_sect_update; exact H1|exact H2|apply IH, H3].
  Qed.
  Lemma has_sect_filter s' (p : sect * list (key * V) -> bool) (st : store) : has_sect s' (filter p st) = true -> has_sect s' st = true.
  Proof. unfold has_sect. rewrite !existsb_exists. intros (x & Hx & E). apply filter_In in Hx. exists x. tauto. Qed.
  Lemma wf_filter (p : sect * list (key * V) -> bool) (st : store) : wf_store st = true -> wf_store (filter p st) = true.
  Proof.
    induction st as [|[s0 es] st IH]; intro H; [reflexivity|].
    apply wf_cons in H. destruct H as (H1 & H2 & H3). cbn [filter]. destruct (p (s0, es)); [|apply IH, H3].
    apply wf_cons. repeat split; [|exact H2|apply IH, H3].
    destruct (has_sect s0 (filter p st)) eqn:E; [|reflexivity]. apply has_sect_filter in E. congruence.
  Qed.
  Lemma has_sect_app s' (a b : store) : has_sect s' (a ++ b) = has_sect s' a || has_sect s' b.
  Proof. unfold has_sect. apply existsb_app. Qed.
  Lemma wf_app_new s k (v : V) (st : store) : has_sect s st = false -> wf_store st = true -> wf_store (st ++ [(s, [(k, v)])]) = true.
  Proof.
    induction st as [|[s0 es] st IH]; intros Hs H; [reflexivity|].
    apply wf_cons in H. destruct H as (H1 & H2 & H3). rewrite has_sect_cons in Hs. apply orb_false_iff in Hs. destruct Hs as [Hs1 Hs2].
    cbn [app]. apply wf_cons. repeat split; [|exact H2|apply IH; assumption].
    rewrite has_sect_app, H1. cbn. rewrite orb_false_r.
    destruct (sect_eqb s s0) eqn:E; [|reflexivity]. apply sect_eqb_eq in E. subst.
    rewrite (proj2 (sect_eqb_eq s0 s0) eq_refl) in Hs1. discriminate.
  Qed.

  Theorem apply_op_wf (st : store) (o : op) st' : wf_store st = true -> apply_op st o = Ok st' -> wf_store st' = true.
  Proof.
    intros Hw H. destruct o as [s k v|s k|s k v]; cbn [apply_op] in H.
    - destruct (has_option s k st); [|discriminate]. injection H as <-. apply wf_update; [intros; apply nodup_set_key; assumption|exact Hw].
    - destruct (has_option s k st); [|discriminate]. injection H as <-. unfold drop_if_empty. apply wf_filter.
      apply wf_update; [intros; apply nodup_del_key; assumption|exact Hw].
    - destruct (has_option s k st); [discriminate|]. destruct (has_sect s st) eqn:E; injection H as <-.
      + apply wf_update; [intros; apply nodup_set_key; assumption|exact Hw].
      + apply wf_app_new; assumption.
  Qed.

  Theorem apply_ops_wf (ops : list op) : forall (st st' : store), wf_store st = true -> apply_ops st ops = Ok st' -> wf_store st' = true.
  Proof.
    induction ops as [|o ops IH]; intros st st' Hw H; cbn [apply_ops] in H; [injection H as <-; exact Hw|].
    destruct (apply_op st o) as [st1| |] eqn:E; try discriminate. eapply IH; [|exact H]. eapply apply_op_wf; eassumption.
  Qed.

  (* invalid operations *)
  Lemma override_missing s k (v : V) (st : store) : has_option s k st = false -> apply_op st (Override s k v) = CfgErr.
  Proof. intro H. cbn. rewrite H. reflexivity. Qed.
  Lemma remove_missing s k (st : store) : has_option s k st = false -> apply_op st (Remove s k) = CfgErr.
  Proof. intro H. cbn. rewrite H. reflexivity. Qed.
  Lemma add_existing s k (v : V) (st : store) : has_option s k st = true -> apply_op st (Add s k v) = CfgErr.
  Proof. intro H. cbn. rewrite H. reflexivity. Qed.

  (* --list-items: every item exactly once *)
  Lemma list_items_complete (st : store) s k v es :
    In (s, es) st -> In (k, v) es -> In (s, k, v) (list_items st).
  Proof.
    intros H1 H2. unfold list_items. apply in_flat_map. exists (s, es). split; [exact H1|]. cbn. apply in_map_iff. exists (k, v). split; [reflexivity|exact H2].
  Qed.
  Lemma list_items_length (st : store) : length (list_items st) = fold_right (fun se n => length (snd se) + n) 0 st.
  Proof. unfold list_items. induction st as [|se st IH]; [reflexivity|]. cbn [flat_map fold_right]. rewrite app_length, map_length, IH. reflexivity. Qed.

  (* ---- the command line: nothing is collated, so an item cannot be removed twice ---- *)
  Lemma sect_eqb_refl s : sect_eqb s s = true. Proof. apply sect_eqb_eq. reflexivity. Qed.
  Lemma key_eqb_refl k : key_eqb k k = true. Proof. apply key_eqb_eq. reflexivity. Qed.
  Lemma has_option_cons s0 (es : list (key * V)) (st : store) s k :
    has_option s k ((s0, es) :: st) = if sect_eqb s0 s then has_key k es else has_option s k st.
  Proof. unfold has_option, section. cbn [find fst]. destruct (sect_eqb s0 s); reflexivity. Qed.
  Lemma has_option_sect s k (st : store) : has_option s k st = true -> has_sect s st = true.
  Proof.
    induction st as [|[s0 es] st IH]; [discriminate|]. rewrite has_option_cons, has_sect_cons. destruct (sect_eqb s0 s); [reflexivity|]. exact IH.
  Qed.
  Lemma has_option_update s g s' k' (st : store) : (forall es, has_key k' (g es) = true -> has_key k' es = true) ->
    has_option s' k' (update_sect s g st) = true -> has_option s' k' st = true.
  Proof.
    intro Hg. induction st as [|[s0 es] st IH]; [discriminate|]. cbn [update_sect fst snd]. destruct (sect_eqb s0 s).
    - rewrite !has_option_cons. destruct (sect_eqb s0 s'); [apply Hg|exact (fun H => H)].
    - rewrite !has_option_cons. destruct (sect_eqb s0 s'); [exact (fun H => H)|exact IH].
  Qed.
  Lemma has_option_drop s s' k' (st : store) : wf_store st = true -> has_option s' k' (drop_if_empty s st) = true -> has_option s' k' st = true.
  Proof.
    unfold drop_if_empty. induction st as [|[s0 es] st IH]; intros Hw H; [discriminate|].
    apply wf_cons in Hw. destruct Hw as (H1 & H2 & H3). cbn [filter fst snd] in H. rewrite has_option_cons.
    destruct (negb (sect_eqb s0 s && is_nil es)).
    - rewrite has_option_cons in H. destruct (sect_eqb s0 s'); [exact H|exact (IH H3 H)].
    - pose proof (IH H3 H) as H'. destruct (sect_eqb s0 s') eqn:E; [|exact H'].
      apply sect_eqb_eq in E. subst s'. apply has_option_sect in H'. congruence.
  Qed.
  Lemma has_key_del_self k (es : list (key * V)) : has_key k (del_key k es) = false.
  Proof.
    unfold has_key, del_key. induction es as [|[k0 v0] es IH]; [reflexivity|]. cbn [filter fst]. destruct (key_eqb k0 k) eqn:E; cbn [negb]; [exact IH|].
    cbn [existsb fst]. rewrite E, IH. reflexivity.
  Qed.
  Lemma has_option_update_self s k g (st : store) : (forall es, has_key k (g es) = false) -> has_option s k (update_sect s g st) = true -> False.
  Proof.
    intro Hg. induction st as [|[s0 es] st IH]; [discriminate|]. cbn [update_sect fst snd]. destruct (sect_eqb s0 s) eqn:E.
    - rewrite has_option_cons, E, Hg. discriminate.
    - rewrite has_option_cons, E. exact IH.
  Qed.
  Definition is_add (o : op) : bool := match o with Add _ _ _ => true | _ => false end.
  (* overrides and removals never create an item *)
  Lemma no_new_option (st st' : store) o s k : wf_store st = true -> is_add o = false -> apply_op st o = Ok st' ->
    has_option s k st' = true -> has_option s k st = true.
  Proof.
    intros Hw Ha H. destruct o as [s0 k0 v|s0 k0|s0 k0 v]; [| |discriminate]; cbn [apply_op] in H.
    - destruct (has_option s0 k0 st) eqn:E; [|discriminate]. injection H as <-.
      destruct (sect_eqb s0 s) eqn:Es.
      + apply sect_eqb_eq in Es. subst s0. intro H. destruct (key_eqb k0 k) eqn:Ek; [apply key_eqb_eq in Ek; subst; exact E|].
        revert H. apply has_option_update. intros es. rewrite has_key_set_key, Ek, orb_false_r. exact (fun H => H).
      + clear E. induction st as [|[s1 es] st IH]; [discriminate|]. cbn [update_sect fst snd].
        apply wf_cons in Hw. destruct Hw as (_ & _ & Hw). destruct (sect_eqb s1 s0) eqn:E1.
        * rewrite !has_option_cons. destruct (sect_eqb s1 s) eqn:E2; [|exact (fun H => H)].
          apply sect_eqb_eq in E1. apply sect_eqb_eq in E2. subst. rewrite sect_eqb_refl in Es. discriminate.
        * rewrite !has_option_cons. destruct (sect_eqb s1 s); [exact (fun H => H)|exact (IH Hw)].
    - destruct (has_option s0 k0 st); [|discriminate]. injection H as <-. intro H.
      apply has_option_drop in H; [|apply wf_update; [intros; apply nodup_del_key; assumption|exact Hw]].
      revert H. apply has_option_update. intro es. apply has_key_del.
  Qed.
  Lemma removed_is_gone (st st' : store) s k : wf_store st = true -> apply_op st (Remove s k) = Ok st' -> has_option s k st' = false.
  Proof.
    intros Hw H. cbn [apply_op] in H. destruct (has_option s k st); [|discriminate]. injection H as <-.
    destruct (has_option s k (drop_if_empty s (update_sect s (del_key k) st))) eqn:E; [|reflexivity]. exfalso.
    apply has_option_drop in E; [|apply wf_update; [intros; apply nodup_del_key; assumption|exact Hw]].
    revert E. apply has_option_update_self. apply has_key_del_self.
  Qed.
  Lemma apply_ops_app (a b : list op) : forall st : store,
    apply_ops st (a ++ b) = match apply_ops st a with Ok st1 => apply_ops st1 b | CfgErr => CfgErr | Internal => Internal end.
  Proof.
    induction a as [|o a IH]; intro st; [reflexivity|]. cbn [app apply_ops]. destruct (apply_op st o); [apply IH|reflexivity|reflexivity].
  Qed.
  Lemma stays_missing (ops : list op) : forall (st st' : store) s k, wf_store st = true -> forallb (fun o => negb (is_add o)) ops = true ->
    has_option s k st = false -> apply_ops st ops = Ok st' -> has_option s k st' = false /\ wf_store st' = true.
  Proof.
    induction ops as [|o ops IH]; intros st st' s k Hw Hn Hm H; cbn [apply_ops] in H.
    - injection H as <-. split; assumption.
    - cbn [forallb] in Hn. apply andb_true_iff in Hn. destruct Hn as [Ho Hn]. apply negb_true_iff in Ho.
      destruct (apply_op st o) as [st1| |] eqn:E; try discriminate.
      apply (IH st1 st' s k); [eapply apply_op_wf; eassumption|exact Hn| |exact H].
      destruct (has_option s k st1) eqn:E1; [|reflexivity]. rewrite (no_new_option st st1 o s k Hw Ho E E1) in Hm. discriminate.
  Qed.
  Theorem cli_remove_twice (st : store) (ov rm1 rm2 rm3 ad : list op) s k : wf_store st = true ->
    forallb (fun o => negb (is_add o)) rm2 = true ->
    forall st', apply_ops st (cli_ops ov (rm1 ++ Remove s k :: rm2 ++ Remove s k :: rm3) ad) <> Ok st'.
  Proof.
    intros Hw Hn st' H. unfold cli_ops in H.
    replace (ov ++ (rm1 ++ Remove s k :: rm2 ++ Remove s k :: rm3) ++ ad) with ((ov ++ rm1) ++ (Remove s k :: rm2) ++ Remove s k :: rm3 ++ ad) in H
      by (rewrite <- !app_assoc; cbn [app]; rewrite <- !app_assoc; reflexivity).
    rewrite apply_ops_app in H. destruct (apply_ops st (ov ++ rm1)) as [st1| |] eqn:E1; try discriminate.
    pose proof (apply_ops_wf _ _ _ Hw E1) as Hw1.
    rewrite apply_ops_app in H. destruct (apply_ops st1 (Remove s k :: rm2)) as [st2| |] eqn:E2; try discriminate.
    cbn [apply_ops] in E2. destruct (apply_op st1 (Remove s k)) as [st1'| |] eqn:E3; try discriminate.
    destruct (stays_missing rm2 st1' st2 s k (apply_op_wf _ _ _ Hw1 E3) Hn (removed_is_gone _ _ _ _ Hw1 E3) E2) as [Hm _].
    cbn [apply_ops] in H. rewrite (remove_missing _ _ _ Hm) in H. discriminate.
  Qed.
End C14.
