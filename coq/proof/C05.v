(* C05: DL_POLY TABEAM -- the declared number of functions equals the number of blocks that follow. *)
From Coq Require Import Permutation.
From V Require Import lib.Common lib.Layout lib.Sorting gen.GridArith model.PairTables model.EamTables proof.LayoutLemmas.
Local Open Scope Z_scope.

Definition is_head (i : item) : bool :=
  match i with ILit c => (c =? L_pair) || (c =? L_embe) || (c =? L_dens) | _ => false end.
Definition count_blocks (l : list item) : nat := length (filter is_head l).

Lemma count_app a b : count_blocks (a ++ b) = (count_blocks a + count_blocks b)%nat.
Proof. unfold count_blocks. rewrite filter_app, app_length. reflexivity. Qed.

Lemma count_flat_map {A} (f : A -> list item) (l : list A) (k : nat) :
  (forall x, In x l -> count_blocks (f x) = k) -> count_blocks (flat_map f l) = (length l * k)%nat.
Proof.
  induction l as [|x l IH]; intro H; [reflexivity|]. cbn [flat_map length]. rewrite count_app, IH, H.
  - lia.
  - left. reflexivity.
  - intros y Hy. apply H. right. exact Hy.
Qed.

Lemma rows_of_four_count cells : forall i, (forall c, In c cells -> is_head c = false) -> count_blocks (rows_of_four cells i) = 0%nat.
Proof.
  induction cells as [|c cells IH]; intros i H; cbn [rows_of_four].
  - destruct (Nat.eqb i 0); reflexivity.
  - rewrite count_app. assert (Hc : is_head c = false) by (apply H; left; reflexivity).
    assert (Hr : forall j, count_blocks (rows_of_four cells j) = 0%nat) by (intro j; apply IH; intros d Hd; apply H; right; exact Hd).
    destruct (Nat.eqb i 0), (Nat.eqb (S i) 4); unfold count_blocks in *; cbn [filter app is_head sp nl]; rewrite ?Hc; cbn; rewrite ?Hr; try reflexivity;
    apply Hr.
Qed.

Lemma tab_fn_count fn n step : count_blocks (tab_fn fn n step) = 0%nat.
Proof. unfold tab_fn, tab_values. apply rows_of_four_count. intros c Hc. apply in_map_iff in Hc. destruct Hc as (i & <- & _). reflexivity. Qed.
Lemma tab_zero_count n : count_blocks (tab_zero n) = 0%nat.
Proof. unfold tab_zero, tab_values. apply rows_of_four_count. intros c Hc. apply in_map_iff in Hc. destruct Hc as (i & <- & _). reflexivity. Qed.

Lemma tabeam_pairs_count els pairs nr dr : count_blocks (tabeam_pairs els pairs nr dr) = length (all_pair_keys els).
Proof.
  unfold tabeam_pairs. rewrite (count_flat_map _ _ 1); [lia|]. intros k _.
  destruct (last_with k (indexed pairs) None); rewrite count_app, ?tab_fn_count, ?tab_zero_count; reflexivity.
Qed.

Lemma tabeam_embed_count nrho drho ie : count_blocks (tabeam_embed nrho drho ie) = 1%nat.
Proof. unfold tabeam_embed. rewrite count_app, tab_fn_count. reflexivity. Qed.

(* number of unordered pairs over n species *)
Lemma tri_keys_length ss : (2 * length (tri_keys ss) = length ss * (length ss + 1))%nat.
Proof.
  induction ss as [|s rest IH]; [reflexivity|]. cbn [tri_keys length]. rewrite app_length, map_length. cbn [length]. lia.
Qed.

Lemma sorted_species_length els : length (sorted_species els) = length els.
Proof. unfold sorted_species. rewrite sort_length, map_length. reflexivity. Qed.

Lemma sorted_species_in els x : In x (sorted_species els) <-> exists e, In e els /\ el_sp e = x.
Proof.
  unfold sorted_species. rewrite sort_In, in_map_iff. split; intros (e & H1 & H2); exists e; tauto.
Qed.

Lemma find_element els b : In b (sorted_species els) -> exists jb, find (fun jb => el_sp (snd jb) =? b) (indexed els) = Some jb.
Proof.
  intro H. apply sorted_species_in in H. destruct H as (e & He & Hb). destruct (indexed_in els e He) as (i & Hi).
  destruct (find (fun jb => el_sp (snd jb) =? b) (indexed els)) as [jb|] eqn:E; [exists jb; reflexivity|].
  exfalso. eapply find_none in E; [|exact Hi]. cbn in E. lia.
Qed.

Theorem tabeam_block_count fs els pairs nrho drho nr dr :
  count_blocks (tabeam_file fs els pairs nrho drho nr dr) =
  (length (all_pair_keys els) + length els + (if fs then length els * length els else length els))%nat.
Proof.
  unfold tabeam_file. rewrite !count_app, tabeam_pairs_count.
  rewrite (count_flat_map _ _ 1) by (intros; apply tabeam_embed_count). rewrite indexed_length.
  replace (count_blocks [ILit L_title100; nl; IQ F_d (if fs then tabeam_count_fs (Z.of_nat (length els)) else tabeam_count (Z.of_nat (length els))); nl]) with 0%nat by reflexivity.
  destruct fs.
  - rewrite (count_flat_map _ _ (length els)).
    + rewrite indexed_length. lia.
    + intros ia _. rewrite (count_flat_map _ _ 1); [rewrite sorted_species_length; lia|].
      intros b Hb. destruct (find_element els b Hb) as (jb & ->). rewrite count_app, tab_fn_count. reflexivity.
  - rewrite (count_flat_map _ _ 1); [rewrite indexed_length; lia|]. intros ia _. rewrite count_app, tab_fn_count. reflexivity.
Qed.

(* the declared counts: n(n+5)/2 = n(n+1)/2 + 2n   and   3n(n+1)/2 = n(n+1)/2 + n + n^2 *)
Local Open Scope Q_scope.
Lemma declared_eam (n : nat) (t : nat) : (2 * t = n * (n + 1))%nat ->
  tabeam_count (Z.of_nat n) == inject_Z (Z.of_nat (t + n + n)).
Proof.
  intro H. unfold tabeam_count.
  assert (E : (Z.of_nat n * (Z.of_nat n + 5))%Z = (2 * Z.of_nat (t + n + n))%Z) by lia.
  rewrite E. rewrite inject_Z_mult. change (inject_Z 2) with (2 # 1). field.
Qed.
Lemma declared_fs (n : nat) (t : nat) : (2 * t = n * (n + 1))%nat ->
  tabeam_count_fs (Z.of_nat n) == inject_Z (Z.of_nat (t + n + n * n)).
Proof.
  intro H. unfold tabeam_count_fs.
  assert (E : (3 * Z.of_nat n * (Z.of_nat n + 1))%Z = (2 * Z.of_nat (t + n + n * n))%Z) by lia.
  rewrite E. rewrite inject_Z_mult. change (inject_Z 2) with (2 # 1). field.
Qed.

(* values of a block: n cells at i*step, rows of four *)
Lemma rows_of_four_trace cells : forall i, flat_map item_evs (rows_of_four cells i) = flat_map item_evs cells.
Proof.
  induction cells as [|c cells IH]; intro i; cbn [rows_of_four].
  - destruct (Nat.eqb i 0); reflexivity.
  - rewrite evs_app. destruct (Nat.eqb i 0), (Nat.eqb (S i) 4); cbn [flat_map item_evs sp nl app]; rewrite ?app_nil_r, IH; reflexivity.
Qed.
Lemma tab_fn_trace fn n step :
  flat_map item_evs (tab_fn fn n step) = map (fun i => mkev fn KCall (tabeam_sample i step)) (zseq 0 (Z.to_nat n)).
Proof.
  unfold tab_fn, tab_values. rewrite rows_of_four_trace. generalize (zseq 0 (Z.to_nat n)). intro l.
  induction l as [|i l IH]; [reflexivity|]. cbn [map flat_map item_evs app]. rewrite IH. reflexivity.
Qed.
