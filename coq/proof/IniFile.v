(* Whole files (model/Ini.v): a file printed from its structure -- sections, options with either delimiter and any blanks,
   any number of continuation lines -- parses back to that structure.  Headers and keys start in the first column here
   (one_option_file in proof/IniProofs.v has the indented case for one option). *)
From Coq Require Import ZArith List Bool Lia ZifyBool.
From V Require Import lib.Common model.Ini proof.IniProofs.
Import ListNotations.
Local Open Scope Z_scope.

Record oline := mkol { ok_key : list Z; ok_w1 : list Z; ok_d : Z; ok_w2 : list Z; ok_x : list Z; ok_conts : list (list Z) }.
Definition osec := (list Z * list oline)%type.
Definition render_opt (o : oline) : list (list Z) := (ok_key o ++ ok_w1 o ++ ok_d o :: ok_w2 o ++ ok_x o) :: ok_conts o.
Definition render_sec (s : osec) : list (list Z) := (91 :: fst s ++ [93]) :: flat_map render_opt (snd s).
Definition render_file (f : list osec) : list (list Z) := flat_map render_sec f.
Definition keyx (o : oline) : list Z := xform (rstrip (ok_key o)).
Definition stored (o : oline) : optlines := (keyx o, strip (ok_x o) :: map strip (ok_conts o)).
Definition expect (f : list osec) : list (list Z * list (list Z * list Z)) :=
  map (fun s => (fst s, map (fun o => (keyx o, final_value (snd (stored o)))) (snd s))) f.

Definition wf_opt (o : oline) : Prop :=
  (exists kc k', ok_key o = kc :: k' /\ is_sp kc = false /\ kc <> 91 /\ kc <> 35 /\ kc <> 59) /\
  forallb (fun c => negb (is_delim c)) (ok_key o) = true /\ all_sp (ok_w1 o) /\ is_delim (ok_d o) = true /\ all_sp (ok_w2 o) /\
  Forall (plain_line 0) (ok_conts o).
Fixpoint opts_wf (seen : list (list Z)) (opts : list oline) : Prop :=
  match opts with
  | [] => True
  | o :: r => wf_opt o /\ existsb (fun s => zlist_eqb s (keyx o)) seen = false /\ opts_wf (seen ++ [keyx o]) r
  end.
Definition wf_header (h : list Z) : Prop := h <> [] /\ forallb (fun c => negb (c =? 93)) h = true.
Fixpoint secs_wf (seen : list (list Z)) (f : list osec) : Prop :=
  match f with
  | [] => True
  | s :: r => wf_header (fst s) /\ existsb (fun n => zlist_eqb n (fst s)) seen = false /\ opts_wf [] (snd s) /\ secs_wf (seen ++ [fst s]) r
  end.

(* ---- list bookkeeping *)
Lemma has_sect_names n (ss : list sect) : has_sect n ss = existsb (fun m => zlist_eqb m n) (map fst ss).
Proof. unfold has_sect. induction ss as [|s ss IH]; [reflexivity|]. cbn [existsb map]. rewrite IH. reflexivity. Qed.
Lemma has_opt_names k (os : list optlines) : has_opt k os = existsb (fun m => zlist_eqb m k) (map fst os).
Proof. unfold has_opt. induction os as [|o os IH]; [reflexivity|]. cbn [existsb map]. rewrite IH. reflexivity. Qed.
Lemma upd_sect_last done h os f : has_sect h done = false -> upd_sect h f (done ++ [(h, os)]) = done ++ [(h, f os)].
Proof.
  unfold has_sect. induction done as [|s done IH]; cbn [existsb app upd_sect fst snd]; intro H.
  - rewrite zlist_eqb_refl. reflexivity.
  - apply orb_false_iff in H. destruct H as [H1 H2]. rewrite H1, (IH H2). reflexivity.
Qed.
Lemma sect_opts_last done h os : has_sect h done = false -> sect_opts h (done ++ [(h, os)]) = os.
Proof.
  unfold has_sect, sect_opts. induction done as [|s done IH]; cbn [existsb app find fst snd]; intro H.
  - rewrite zlist_eqb_refl. reflexivity.
  - apply orb_false_iff in H. destruct H as [H1 H2]. rewrite H1. exact (IH H2).
Qed.
Lemma add_lines_last done h k os v ls : has_sect h done = false -> has_opt k os = false ->
  add_lines h k ls (done ++ [(h, os ++ [(k, v)])]) = done ++ [(h, os ++ [(k, v ++ map strip ls)])].
Proof.
  intros Hh Hk. revert v. induction ls as [|l ls IH]; intro v; [cbn; rewrite app_nil_r; reflexivity|].
  unfold add_lines in *. cbn [fold_left]. rewrite (upd_sect_last _ _ _ _ Hh), (app_line_lines _ _ _ _ Hk), IH. cbn [map]. rewrite <- app_assoc. reflexivity.
Qed.

(* ---- one header line, from any state whose indentation level is 0 *)
Lemma header_line (ss : list sect) c o b h : wf_header h -> has_sect h ss = false ->
  step (mk ss c o 0 b) (91 :: h ++ [93]) = Go (mk (ss ++ [(h, [])]) (Some h) None 0 b).
Proof.
  intros [Hn H93] Hs.
  assert (S1 : strip (91 :: h ++ [93]) = 91 :: h ++ [93]).
  { unfold strip. rewrite (lstrip_nosp 91 _ eq_refl). change (91 :: h ++ [93]) with ((91 :: h) ++ 93 :: []). rewrite (rstrip_app_nonsp _ 93 [] eq_refl). reflexivity. }
  assert (C1 : is_comment (91 :: h ++ [93]) = false) by (unfold is_comment; rewrite S1; reflexivity).
  unfold step. rewrite C1, S1. cbn [cur opt ind secs bad]. rewrite (header_of_plain _ Hn H93), Hs.
  change (indent_of (91 :: h ++ [93])) with 0%nat. change (Nat.ltb 0 0) with false. cbv iota.
  destruct c as [n|]; [destruct o as [k|]|]; reflexivity.
Qed.

(* ---- one option with its continuation lines *)
Lemma option_lines (done : list sect) h (os : list optlines) o0 b o : wf_opt o -> has_sect h done = false -> has_opt (keyx o) os = false ->
  run (mk (done ++ [(h, os)]) (Some h) o0 0 b) (render_opt o) = Go (mk (done ++ [(h, os ++ [stored o])]) (Some h) (Some (keyx o)) 0 b).
Proof.
  intros ((kc & k' & Hkey & Hkc & K91 & K35 & K59) & Hk & H1 & Hd & H2 & Hc) Hh Ho.
  assert (Hd_sp : is_sp (ok_d o) = false) by (revert Hd; unfold is_delim, is_sp; lia).
  set (oline := ok_key o ++ ok_w1 o ++ ok_d o :: ok_w2 o ++ ok_x o). set (oval := (ok_key o ++ ok_w1 o) ++ ok_d o :: rstrip (ok_w2 o ++ ok_x o)).
  assert (S2 : strip oline = oval).
  { unfold oline, oval, strip.
    assert (L : lstrip (ok_key o ++ ok_w1 o ++ ok_d o :: ok_w2 o ++ ok_x o) = ok_key o ++ ok_w1 o ++ ok_d o :: ok_w2 o ++ ok_x o) by (rewrite Hkey; cbn [app]; apply lstrip_nosp, Hkc).
    rewrite L, app_assoc. apply rstrip_app_nonsp, Hd_sp. }
  assert (Hov : exists tl, oval = kc :: tl) by (unfold oval; rewrite Hkey; eexists; reflexivity). destruct Hov as (tl & Hov).
  assert (I2 : indent_of oline = 0%nat) by (unfold oline; rewrite Hkey; cbn [app indent_of]; rewrite Hkc; reflexivity).
  assert (O2 : option_of oval = Some (keyx o, strip (ok_x o))).
  { unfold oval, keyx. rewrite <- app_assoc. change (ok_d o :: rstrip (ok_w2 o ++ ok_x o)) with (ok_d o :: [] ++ rstrip (ok_w2 o ++ ok_x o)).
    rewrite (option_line (ok_key o) (ok_w1 o) (ok_d o) [] (rstrip (ok_w2 o ++ ok_x o)) Hk H1 Hd eq_refl), strip_rstrip, (strip_app_ws_l _ _ H2).
    destruct (rstrip (ok_key o)) as [|a b0] eqn:E; [|reflexivity].
    exfalso. rewrite Hkey in E. change (kc :: k') with ([] ++ kc :: k') in E. rewrite (rstrip_app_nonsp [] kc k' Hkc) in E. discriminate. }
  assert (C2 : is_comment oline = false).
  { unfold is_comment. rewrite S2, Hov. assert (E35 : (kc =? 35) = false) by lia. assert (E59 : (kc =? 59) = false) by lia. rewrite E35, E59. reflexivity. }
  assert (H2h : header_of oval = None) by (rewrite Hov; unfold header_of; assert (E91 : (kc =? 91) = false) by lia; rewrite E91; reflexivity).
  unfold render_opt. fold oline. cbn [run].
  assert (St : step (mk (done ++ [(h, os)]) (Some h) o0 0 b) oline
               = Go (mk (done ++ [(h, os ++ [(keyx o, [strip (ok_x o)])])]) (Some h) (Some (keyx o)) 0 b)).
  { unfold step. rewrite C2, S2, Hov. cbn [cur opt ind secs bad]. rewrite <- Hov, I2. change (Nat.ltb 0 0) with false. cbv iota.
    rewrite H2h, O2, (sect_opts_last _ _ _ Hh), Ho, (upd_sect_last _ _ _ _ Hh). destruct o0; reflexivity. }
  rewrite St, (continuation h (keyx o) (ok_conts o) _ _ _ Hc). rewrite (add_lines_last _ _ _ _ _ _ Hh Ho). reflexivity.
Qed.

Lemma options_run (done : list sect) h : has_sect h done = false -> forall opts (os : list optlines) o0 b, opts_wf (map fst os) opts ->
  exists o1, run (mk (done ++ [(h, os)]) (Some h) o0 0 b) (flat_map render_opt opts) = Go (mk (done ++ [(h, os ++ map stored opts)]) (Some h) o1 0 b).
Proof.
  intro Hh. induction opts as [|o opts IH]; intros os o0 b H.
  - exists o0. cbn. rewrite app_nil_r. reflexivity.
  - destruct H as (Ho & Hs & Hr). change (flat_map render_opt (o :: opts)) with (render_opt o ++ flat_map render_opt opts).
    assert (Hno : has_opt (keyx o) os = false) by (rewrite has_opt_names; exact Hs).
    assert (R : forall a b0 s, run s (a ++ b0) = match run s a with Go s' => run s' b0 | Fatal => Fatal end).
    { intro a. induction a as [|l a IHa]; intros b0 s; [reflexivity|]. cbn [app run]. destruct (step s l); [apply IHa|reflexivity]. }
    rewrite R, (option_lines done h os o0 b o Ho Hh Hno).
    destruct (IH (os ++ [stored o]) (Some (keyx o)) b) as (o1 & E).
    + rewrite map_app. exact Hr.
    + exists o1. rewrite E, <- app_assoc. reflexivity.
Qed.

Lemma run_app a : forall b0 s, run s (a ++ b0) = match run s a with Go s' => run s' b0 | Fatal => Fatal end.
Proof. induction a as [|l a IHa]; intros b0 s; [reflexivity|]. cbn [app run]. destruct (step s l); [apply IHa|reflexivity]. Qed.

Lemma sections_run f : forall (done : list sect) c o b, secs_wf (map fst done) f ->
  exists o1, run (mk done c o 0 b) (render_file f)
             = Go (mk (done ++ map (fun s => (fst s, map stored (snd s))) f) (fold_left (fun _ s => Some (fst s)) f c) o1 0 b).
Proof.
  induction f as [|s f IH]; intros done c o b H.
  - exists o. cbn. rewrite app_nil_r. reflexivity.
  - destruct H as (Hh & Hs & Ho & Hr). unfold render_file. cbn [flat_map]. unfold render_sec at 1. cbn [app run].
    assert (Hn : has_sect (fst s) done = false) by (rewrite has_sect_names; exact Hs).
    rewrite (header_line done c o b (fst s) Hh Hn). rewrite run_app.
    destruct (options_run done (fst s) Hn (snd s) [] None b Ho) as (o1 & E). rewrite E. cbn [app].
    destruct (IH (done ++ [(fst s, map stored (snd s))]) (Some (fst s)) o1 b) as (o2 & E2).
    + rewrite map_app. exact Hr.
    + exists o2. fold (render_file f). rewrite E2. cbn [map fold_left]. rewrite <- app_assoc. reflexivity.
Qed.

Theorem parse_render f : secs_wf [] f -> parse_ini (render_file f) = Some (expect f).
Proof.
  intro H. unfold parse_ini, init. destruct (sections_run f [] None None false H) as (o1 & E). rewrite E. cbn [bad secs app].
  unfold expect. rewrite map_map. apply f_equal. apply map_ext. intro s. cbn [fst snd]. rewrite map_map. reflexivity.
Qed.

(* ---- text that is not an INI file: the first line that is neither blank nor a comment must be a section header *)
Definition skipped (l : list Z) : Prop := is_comment l = true \/ strip l = [].
Theorem missing_header pre l rest : Forall skipped pre -> is_comment l = false -> strip l <> [] -> header_of (strip l) = None ->
  parse_ini (pre ++ l :: rest) = None.
Proof.
  intros Hp Hc Hn Hh. unfold parse_ini. rewrite run_app.
  assert (E : run init pre = Go init).
  { induction Hp as [|p pre [Hpc|Hpe] _ IH]; [reflexivity| |]; cbn [run]; unfold step at 1; rewrite ?Hpc.
    - exact IH.
    - destruct (is_comment p); [exact IH|]. rewrite Hpe. exact IH. }
  rewrite E. cbn [run]. unfold step. rewrite Hc. destruct (strip l) as [|c r] eqn:El; [contradiction|]. cbn [init cur]. rewrite Hh. reflexivity.
Qed.
(* a second header with the name of an earlier section (other than [Variables]) is refused *)
Lemma fold_last_some (f : list osec) : forall x, fold_left (fun (_ : option (list Z)) (s0 : osec) => Some (fst s0)) f (Some x) <> None.
Proof. induction f as [|a f IH]; intro x; cbn [fold_left]; [discriminate|apply IH]. Qed.
Theorem duplicate_section f1 s f2 rest : secs_wf [] (f1 ++ s :: f2) -> zlist_eqb (fst s) variables = false ->
  parse_ini (render_file (f1 ++ s :: f2) ++ (91 :: fst s ++ [93]) :: rest) = None.
Proof.
  intros H Hv. unfold parse_ini, init. rewrite run_app. destruct (sections_run (f1 ++ s :: f2) [] None None false H) as (o1 & E). rewrite E.
  cbn [app run].
  assert (Hs : forall g : list Z * list oline -> list optlines, has_sect (fst s) (map (fun s0 => (fst s0, g s0)) (f1 ++ s :: f2)) = true).
  { intro g. unfold has_sect. rewrite map_app, existsb_app. cbn [map existsb fst]. rewrite zlist_eqb_refl. cbn. apply orb_true_r. }
  assert (Hh : wf_header (fst s)).
  { clear -H. revert H. generalize (@nil (list Z)). induction f1 as [|a f1 IH]; intros seen H; cbn [app secs_wf] in H; [tauto|]. destruct H as (_ & _ & _ & H). exact (IH _ H). }
  destruct Hh as [Hn H93].
  assert (S1 : strip (91 :: fst s ++ [93]) = 91 :: fst s ++ [93]).
  { unfold strip. rewrite (lstrip_nosp 91 _ eq_refl). change (91 :: fst s ++ [93]) with ((91 :: fst s) ++ 93 :: []). rewrite (rstrip_app_nonsp _ 93 [] eq_refl). reflexivity. }
  assert (C1 : is_comment (91 :: fst s ++ [93]) = false) by (unfold is_comment; rewrite S1; reflexivity).
  unfold step. rewrite C1, S1. cbn [cur opt ind secs]. rewrite (header_of_plain _ Hn H93), Hs, Hv. change (indent_of (91 :: fst s ++ [93])) with 0%nat. change (Nat.ltb 0 0) with false.
  destruct (fold_left (fun (_ : option (list Z)) (s0 : list Z * list oline) => Some (fst s0)) (f1 ++ s :: f2) None) as [n|] eqn:Ec.
  - destruct o1; reflexivity.
  - exfalso. rewrite fold_left_app in Ec. cbn [fold_left] in Ec. exact (fold_last_some f2 _ Ec).
Qed.

(* the first line of an option, in any section state at indentation level 0 *)
Lemma opt_step_gen (ss : list sect) h o0 b o : wf_opt o ->
  step (mk ss (Some h) o0 0 b) (ok_key o ++ ok_w1 o ++ ok_d o :: ok_w2 o ++ ok_x o)
  = if has_opt (keyx o) (sect_opts h ss) then Fatal
    else Go (mk (upd_sect h (fun os => os ++ [(keyx o, [strip (ok_x o)])]) ss) (Some h) (Some (keyx o)) 0 b).
Proof.
  intros ((kc & k' & Hkey & Hkc & K91 & K35 & K59) & Hk & H1 & Hd & H2 & Hc).
  assert (Hd_sp : is_sp (ok_d o) = false) by (revert Hd; unfold is_delim, is_sp; lia).
  set (oline := ok_key o ++ ok_w1 o ++ ok_d o :: ok_w2 o ++ ok_x o). set (oval := (ok_key o ++ ok_w1 o) ++ ok_d o :: rstrip (ok_w2 o ++ ok_x o)).
  assert (S2 : strip oline = oval).
  { unfold oline, oval, strip.
    assert (L : lstrip (ok_key o ++ ok_w1 o ++ ok_d o :: ok_w2 o ++ ok_x o) = ok_key o ++ ok_w1 o ++ ok_d o :: ok_w2 o ++ ok_x o) by (rewrite Hkey; cbn [app]; apply lstrip_nosp, Hkc).
    rewrite L, app_assoc. apply rstrip_app_nonsp, Hd_sp. }
  assert (Hov : exists tl, oval = kc :: tl) by (unfold oval; rewrite Hkey; eexists; reflexivity). destruct Hov as (tl & Hov).
  assert (I2 : indent_of oline = 0%nat) by (unfold oline; rewrite Hkey; cbn [app indent_of]; rewrite Hkc; reflexivity).
  assert (O2 : option_of oval = Some (keyx o, strip (ok_x o))).
  { unfold oval, keyx. rewrite <- app_assoc. change (ok_d o :: rstrip (ok_w2 o ++ ok_x o)) with (ok_d o :: [] ++ rstrip (ok_w2 o ++ ok_x o)).
    rewrite (option_line (ok_key o) (ok_w1 o) (ok_d o) [] (rstrip (ok_w2 o ++ ok_x o)) Hk H1 Hd eq_refl), strip_rstrip, (strip_app_ws_l _ _ H2).
    destruct (rstrip (ok_key o)) as [|a b0] eqn:E; [|reflexivity].
    exfalso. rewrite Hkey in E. change (kc :: k') with ([] ++ kc :: k') in E. rewrite (rstrip_app_nonsp [] kc k' Hkc) in E. discriminate. }
  assert (C2 : is_comment oline = false).
  { unfold is_comment. rewrite S2, Hov. assert (E35 : (kc =? 35) = false) by lia. assert (E59 : (kc =? 59) = false) by lia. rewrite E35, E59. reflexivity. }
  assert (H2h : header_of oval = None) by (rewrite Hov; unfold header_of; assert (E91 : (kc =? 91) = false) by lia; rewrite E91; reflexivity).
  unfold step. rewrite C2, S2, Hov. cbn [cur opt ind secs bad]. rewrite <- Hov, I2. change (Nat.ltb 0 0) with false. cbv iota.
  rewrite H2h, O2. destruct o0; reflexivity.
Qed.
Lemma wf_last_fresh f : forall seen s, secs_wf seen (f ++ [s]) -> existsb (fun n => zlist_eqb n (fst s)) (seen ++ map fst f) = false.
Proof.
  induction f as [|a f IH]; intros seen s H; cbn [app secs_wf map] in *.
  - rewrite app_nil_r. tauto.
  - destruct H as (_ & _ & _ & H). specialize (IH _ _ H). rewrite <- app_assoc in IH. exact IH.
Qed.
(* a second option with the same key (after optionxform: whatever blanks and tabs it is written with) in a section is refused *)
Theorem duplicate_option f s o' rest : secs_wf [] (f ++ [s]) -> wf_opt o' ->
  existsb (fun k => zlist_eqb k (keyx o')) (map keyx (snd s)) = true ->
  parse_ini (render_file (f ++ [s]) ++ render_opt o' ++ rest) = None.
Proof.
  intros H Ho Hdup. unfold parse_ini, init. rewrite run_app. destruct (sections_run (f ++ [s]) [] None None false H) as (o1 & E). rewrite E.
  rewrite fold_left_app. cbn [fold_left app]. unfold render_opt. cbn [app run]. rewrite (opt_step_gen _ _ _ _ _ Ho).
  rewrite map_app. cbn [map].
  assert (Hf : has_sect (fst s) (map (fun s0 : list Z * list oline => (fst s0, map stored (snd s0))) f) = false).
  { rewrite has_sect_names, map_map. cbn [fst]. exact (wf_last_fresh f [] s H). }
  rewrite (sect_opts_last _ _ _ Hf), has_opt_names, map_map.
  replace (map (fun x : oline => fst (stored x)) (snd s)) with (map keyx (snd s)) by (apply map_ext; reflexivity).
  rewrite Hdup. reflexivity.
Qed.
