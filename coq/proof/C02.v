(* C02: DL_POLY TABLE. *)
From Coq Require Import Reals Qreals Lra.
From V Require Import lib.Common lib.Layout lib.RLib gen.GridArith gen.Combinators model.PairTables model.Callable
                      proof.LayoutLemmas proof.C01.
Local Open Scope Q_scope.

(* r accumulated k times by `r += meshResolution` is k * meshResolution *)
Lemma dl_r_linear mesh k : dl_r mesh k == inject_Z (Z.of_nat k) * mesh.
Proof.
  induction k as [|k IH]; cbn [dl_r]; [cbn; ring|].
  rewrite Qred_correct, IH, Nat2Z.inj_succ. unfold Z.succ. rewrite inject_Z_plus. change (inject_Z 1) with (1 # 1). ring.
Qed.

Lemma dl_last mesh cutoff ngrid : (4 < ngrid)%Z -> mesh = dlpoly_mesh cutoff ngrid ->
  dl_r mesh (Z.to_nat (ngrid - 4)) == cutoff.
Proof.
  intros H ->. rewrite dl_r_linear, Z2Nat.id by lia. unfold dlpoly_mesh.
  assert (Hn : ~ inject_Z ngrid - (4 # 1) == 0) by (unfold inject_Z, Qeq, Qminus, Qplus; cbn; lia).
  rewrite (inject_Z_minus ngrid 4). change (inject_Z 4) with (4 # 1). field. exact Hn.
Qed.

(* values and record structure *)
Definition is_nl (i : item) : bool := match i with ILit c => (c =? L_nl)%Z | _ => false end.
Definition is_val (i : item) : bool := match i with IVal _ _ _ => true | _ => false end.

Lemma dl_items_vals mk n : (forall k, is_val (mk k) = true) ->
  length (filter is_val (dl_value_items mk n)) = n.
Proof.
  intro Hmk. unfold dl_value_items.
  assert (G : forall l, length (filter is_val (flat_map (fun k => [sp; mk k] ++ (if Nat.eqb (k mod 4) 0 then [nl] else [])) l)) = length l).
  { induction l as [|k l IH]; [reflexivity|]. cbn [flat_map]. rewrite filter_app, app_length, IH.
    cbn [app filter is_val sp]. rewrite Hmk. destruct (Nat.eqb (k mod 4) 0); cbn; reflexivity. }
  rewrite G, seq_length. reflexivity.
Qed.

Lemma dl_items_records mk n : (forall k, is_nl (mk k) = false) ->
  length (filter is_nl (dl_value_items mk n)) = length (filter (fun k => Nat.eqb (k mod 4) 0) (seq 1 n)).
Proof.
  intro Hmk. unfold dl_value_items. generalize (seq 1 n). intro l.
  induction l as [|k l IH]; [reflexivity|]. cbn [flat_map]. rewrite filter_app, app_length, IH.
  cbn [app filter is_nl sp]. rewrite Hmk. cbn [filter]. destruct (Nat.eqb (k mod 4) 0); cbn; reflexivity.
Qed.

Lemma count_mult4 n : length (filter (fun k => Nat.eqb (k mod 4) 0) (seq 1 (4 * n))) = n.
Proof.
  induction n as [|n IH]; [reflexivity|].
  replace (4 * S n)%nat with (4 * n + 4)%nat by lia. rewrite seq_app, filter_app, app_length, IH.
  cbn [seq filter]. replace (1 + 4 * n)%nat with (4 * n + 1)%nat by lia.
  replace (S (4 * n + 1)) with (4 * n + 2)%nat by lia. replace (S (4 * n + 2)) with (4 * n + 3)%nat by lia.
  replace (S (4 * n + 3)) with (4 * n + 4)%nat by lia.
  assert (E1 : ((4 * n + 1) mod 4 = 1)%nat) by (rewrite Nat.add_comm, Nat.mul_comm, Nat.mod_add by lia; reflexivity).
  assert (E2 : ((4 * n + 2) mod 4 = 2)%nat) by (rewrite Nat.add_comm, Nat.mul_comm, Nat.mod_add by lia; reflexivity).
  assert (E3 : ((4 * n + 3) mod 4 = 3)%nat) by (rewrite Nat.add_comm, Nat.mul_comm, Nat.mod_add by lia; reflexivity).
  assert (E4 : ((4 * n + 4) mod 4 = 0)%nat).
  { replace (4 * n + 4)%nat with (0 + (n + 1) * 4)%nat by lia. rewrite Nat.mod_add by lia. reflexivity. }
  rewrite E1, E2, E3, E4. cbn. lia.
Qed.

(* trace of a block: ngrid energies then ngrid force values, for the same potential, at the same positions *)
Lemma dl_items_trace mk n : flat_map item_evs (dl_value_items mk n) = flat_map (fun k => item_evs (mk k)) (seq 1 n).
Proof.
  unfold dl_value_items. rewrite evs_flat_map. apply flat_map_ext. intro k.
  rewrite evs_app. cbn [flat_map item_evs sp app]. destruct (Nat.eqb (k mod 4) 0); cbn; rewrite !app_nil_r; reflexivity.
Qed.

Lemma dlpoly_block_trace mesh ngrid base i p :
  flat_map item_evs (dlpoly_block mesh ngrid base i p) =
  flat_map (fun k => energy_evs i (dl_r mesh k)) (seq 1 ngrid) ++
  flat_map (fun k => force_evs i (p_hasd p) (dl_r mesh k)) (seq 1 ngrid).
Proof.
  unfold dlpoly_block. rewrite !evs_app. cbn [flat_map item_evs app]. rewrite !dl_items_trace. reflexivity.
Qed.

Lemma dlpoly_reject pots cutoff ngrid : pots <> [] -> (ngrid mod 4 <> 0)%Z -> dlpoly_file pots cutoff ngrid = None.
Proof.
  intros Hp Hn. unfold dlpoly_file. destruct pots as [|p ps]; [contradiction|]. cbn [is_nil negb andb].
  destruct (ngrid mod 4 =? 0)%Z eqn:E; [apply Z.eqb_eq in E; contradiction|reflexivity].
Qed.

Lemma dlpoly_accept pots cutoff ngrid : (ngrid mod 4 = 0)%Z ->
  dlpoly_file pots cutoff ngrid =
  Some ([ILit L_blank80; nl; IQ F_158e (dlpoly_mesh cutoff ngrid); IQ F_158e cutoff; IInt F_10d ngrid; nl]
        ++ dlpoly_blocks (dlpoly_mesh cutoff ngrid) (Z.to_nat ngrid) 0 0 pots).
Proof.
  intro H. unfold dlpoly_file. rewrite H. cbn [Z.eqb negb andb]. rewrite andb_false_r. reflexivity.
Qed.

(* the force value is r * Potential.force(r) = - r dV/dr for the same callable *)
Local Open Scope R_scope.
Lemma dl_force_cell (c : callable) (i : nat) (r : Q) (jr : nat) (aj : nat -> R) :
  let evs := force_evs i (has_d c) r in
  let v := fun j => perform c (nth j evs (mkev (FPair i) KCall 0)) in
  let a := fun j => if Nat.eqb j jr then Q2R r else Q2R (e_arg (nth j evs (mkev (FPair i) KCall 0))) in
  (has_d c = false -> (2 <= jr)%nat) ->
  sem_scale (if has_d c then SArgNeg else SArgNegNum jr) v a 0 =
  (if has_d c then Q2R r else a jr) * force (Q2R force_h) c (Q2R r).
Proof.
  intros evs v a Hjr. pose proof (force_cell_is_force c i r) as H. cbv zeta in H.
  unfold evs, v, a in *. unfold force_evs, has_d in *. destruct (cd c) as [d|] eqn:Hd.
  - cbn [sem_scale nth perform e_kind e_arg Nat.eqb] in *.
    destruct jr as [|jr]; cbn [Nat.eqb]; rewrite <- H; reflexivity.
  - specialize (Hjr eq_refl). cbn [sem_scale] in *.
    destruct jr as [|[|jr]]; [lia|lia|]. cbn [Nat.eqb] in *. rewrite <- H. reflexivity.
Qed.
