(* Text level of potable files (model/Ini.v): the choice of "=" or ":" and the blanks around it, blanks and tabs inside option
   keys, and continuation lines. *)
From Coq Require Import ZArith List Bool Lia ZifyBool.
From V Require Import lib.Common model.Ini.
Import ListNotations.
Local Open Scope Z_scope.

Definition all_sp (w : list Z) : Prop := forallb is_sp w = true.

Lemma lstrip_app_ws w l : all_sp w -> lstrip (w ++ l) = lstrip l.
Proof.
  unfold all_sp. induction w as [|c w IH]; intro H; [reflexivity|]. cbn [forallb] in H. apply andb_true_iff in H. destruct H as [Hc Hw].
  cbn [app lstrip]. rewrite Hc. apply IH, Hw.
Qed.
Lemma all_sp_rev w : all_sp w -> all_sp (rev w).
Proof. unfold all_sp. rewrite !forallb_forall. intros H x Hx. apply H, in_rev, Hx. Qed.
Lemma rstrip_app_ws l w : all_sp w -> rstrip (l ++ w) = rstrip l.
Proof. intro H. unfold rstrip. rewrite rev_app_distr, (lstrip_app_ws _ _ (all_sp_rev _ H)). reflexivity. Qed.
Lemma lstrip_nosp c l : is_sp c = false -> lstrip (c :: l) = c :: l.
Proof. intro H. cbn. rewrite H. reflexivity. Qed.
Lemma lstrip_all_sp w : all_sp w -> lstrip w = [].
Proof. intro H. rewrite <- (app_nil_r w), (lstrip_app_ws _ _ H). reflexivity. Qed.
Lemma strip_app_ws_l w l : all_sp w -> strip (w ++ l) = strip l.
Proof. intro H. unfold strip. rewrite (lstrip_app_ws _ _ H). reflexivity. Qed.
(* lstrip only removes from the front: what is left ends like the original *)
Lemma lstrip_suffix l : exists w, all_sp w /\ l = w ++ lstrip l.
Proof.
  induction l as [|c l (w & Hw & E)]; [exists []; split; reflexivity|]. cbn [lstrip]. destruct (is_sp c) eqn:Ec.
  - exists (c :: w). split; [unfold all_sp in *; cbn; rewrite Ec, Hw; reflexivity|]. cbn [app]. rewrite <- E. reflexivity.
  - exists []. split; reflexivity.
Qed.
Lemma rstrip_lstrip_comm_ws l w : all_sp w -> strip (l ++ w) = strip l.
Proof.
  intro H. unfold strip. destruct (lstrip_suffix (l ++ w)) as (u & Hu & E).
  (* lstrip (l ++ w): either l has a non-space and lstrip (l ++ w) = lstrip l ++ w, or l is all space and both sides are [] *)
  clear u Hu E. induction l as [|c l IH].
  - cbn [app lstrip]. rewrite (lstrip_all_sp _ H). reflexivity.
  - cbn [app lstrip]. destruct (is_sp c); [exact IH|]. change (c :: l ++ w) with ((c :: l) ++ w). apply rstrip_app_ws, H.
Qed.

(* ---- "=" or ":" and the blanks around it *)
Lemma split_delim_app k d r : forallb (fun c => negb (is_delim c)) k = true -> is_delim d = true -> split_delim (k ++ d :: r) = Some (k, r).
Proof.
  intros Hk Hd. induction k as [|c k IH]; cbn [app split_delim].
  - rewrite Hd. reflexivity.
  - cbn [forallb] in Hk. apply andb_true_iff in Hk. destruct Hk as [Hc Hk]. apply negb_true_iff in Hc. rewrite Hc, (IH Hk). reflexivity.
Qed.
Lemma sp_not_delim c : is_sp c = true -> is_delim c = false.
Proof. unfold is_sp, is_delim. lia. Qed.
Lemma nodelim_app k w : forallb (fun c => negb (is_delim c)) k = true -> all_sp w -> forallb (fun c => negb (is_delim c)) (k ++ w) = true.
Proof.
  intros Hk Hw. rewrite forallb_app, Hk. cbn. unfold all_sp in Hw. rewrite forallb_forall in *. intros x Hx. rewrite (sp_not_delim _ (Hw x Hx)). reflexivity.
Qed.
Theorem option_line k w1 d w2 x : forallb (fun c => negb (is_delim c)) k = true -> all_sp w1 -> is_delim d = true -> all_sp w2 ->
  option_of (k ++ w1 ++ d :: w2 ++ x) = match rstrip k with [] => None | k' => Some (xform k', strip x) end.
Proof.
  intros Hk H1 Hd H2. unfold option_of. rewrite app_assoc, (split_delim_app _ _ _ (nodelim_app _ _ Hk H1) Hd).
  rewrite (rstrip_app_ws _ _ H1), (strip_app_ws_l _ _ H2). reflexivity.
Qed.

(* ---- blanks and tabs in keys: xform only sees the characters that are not blanks or tabs *)
Definition nb (c : Z) : bool := negb ((c =? 32) || (c =? 9)).
Lemma nb_sp c : nb c = false -> is_sp c = true.
Proof. unfold nb, is_sp. lia. Qed.
Lemma lstrip_filter l : lstrip (filter nb l) = filter nb (lstrip l).
Proof.
  induction l as [|c l IH]; [reflexivity|]. cbn [filter lstrip]. destruct (is_sp c) eqn:Es.
  - destruct (nb c); [cbn [lstrip]; rewrite Es|]; exact IH.
  - destruct (nb c) eqn:En; [|apply nb_sp in En; congruence]. cbn [lstrip filter]. rewrite Es, En. reflexivity.
Qed.
Lemma filter_rev {A} (p : A -> bool) l : filter p (rev l) = rev (filter p l).
Proof.
  induction l as [|c l IH]; [reflexivity|]. cbn [rev filter]. rewrite filter_app, IH. cbn [filter]. destruct (p c); [reflexivity|apply app_nil_r].
Qed.
Lemma rstrip_filter l : rstrip (filter nb l) = filter nb (rstrip l).
Proof. unfold rstrip. rewrite <- (filter_rev nb l). rewrite lstrip_filter. rewrite (filter_rev nb (lstrip (rev l))). reflexivity. Qed.
Lemma xform_alt l : xform l = strip (filter nb l).
Proof. unfold xform, strip. change (fun c => negb ((c =? 32) || (c =? 9))) with nb. rewrite lstrip_filter, rstrip_filter. reflexivity. Qed.
Theorem xform_blanks l1 l2 : filter nb l1 = filter nb l2 -> xform l1 = xform l2.
Proof. intro H. rewrite !xform_alt, H. reflexivity. Qed.
Theorem xform_insert a c b : (c = 32 \/ c = 9) -> xform (a ++ c :: b) = xform (a ++ b).
Proof. intro H. apply xform_blanks. rewrite !filter_app. cbn [filter]. replace (nb c) with false by (destruct H; subst; reflexivity). reflexivity. Qed.
Lemma strip_filter l : strip (filter nb l) = filter nb (strip l).
Proof. unfold strip. rewrite lstrip_filter, rstrip_filter. reflexivity. Qed.
Lemma lstrip_idem m : lstrip (lstrip m) = lstrip m.
Proof. induction m as [|c m IH]; [reflexivity|]. cbn [lstrip]. destruct (is_sp c) eqn:Es; [exact IH|]. cbn [lstrip]. rewrite Es. reflexivity. Qed.
Lemma rstrip_idem q : rstrip (rstrip q) = rstrip q.
Proof. unfold rstrip. rewrite rev_involutive, lstrip_idem. reflexivity. Qed.
Lemma lstrip_head q c r : lstrip q = c :: r -> is_sp c = false.
Proof. induction q as [|d q IH]; [discriminate|]. cbn [lstrip]. destruct (is_sp d) eqn:Ed; [exact IH|]. intro E. injection E as -> _. exact Ed. Qed.
Lemma lstrip_keeps_last u c : is_sp c = false -> exists t, lstrip (u ++ [c]) = t ++ [c].
Proof.
  intro Hc. induction u as [|d u IH]; [exists []; cbn; rewrite Hc; reflexivity|]. cbn [app lstrip]. destruct (is_sp d); [exact IH|]. exists (d :: u). reflexivity.
Qed.
Lemma lstrip_rstrip_lstrip q : lstrip (rstrip (lstrip q)) = rstrip (lstrip q).
Proof.
  destruct (lstrip q) as [|c r] eqn:E; [reflexivity|]. pose proof (lstrip_head _ _ _ E) as Hc.
  unfold rstrip. cbn [rev]. destruct (lstrip_keeps_last (rev r) c Hc) as (t & Et). rewrite Et, rev_app_distr. cbn [rev app]. apply lstrip_nosp, Hc.
Qed.
Lemma strip_idem m : strip (strip m) = strip m.
Proof. unfold strip. rewrite lstrip_rstrip_lstrip, rstrip_idem. reflexivity. Qed.
Lemma filter_nb_idem m : filter nb (filter nb m) = filter nb m.
Proof. induction m as [|c m IH]; [reflexivity|]. cbn [filter]. destruct (nb c) eqn:En; cbn [filter]; rewrite ?En, IH; reflexivity. Qed.
Theorem xform_idem l : xform (xform l) = xform l.
Proof. rewrite (xform_alt (xform l)), (xform_alt l), strip_filter, strip_idem, <- strip_filter, filter_nb_idem. reflexivity. Qed.

(* ---- continuation lines *)
Definition plain_line (i0 : nat) (l : list Z) : Prop := is_comment l = false /\ strip l <> [] /\ (i0 < indent_of l)%nat.
Definition add_lines (n k : list Z) (ls : list (list Z)) (ss : list sect) : list sect :=
  fold_left (fun ss l => upd_sect n (app_line k (strip l)) ss) ls ss.
Theorem continuation n k ls : forall ss i b, Forall (plain_line i) ls ->
  run (mk ss (Some n) (Some k) i b) ls = Go (mk (add_lines n k ls ss) (Some n) (Some k) i b).
Proof.
  induction ls as [|l ls IH]; intros ss i b H; [reflexivity|].
  inversion H as [|? ? (H1 & H2 & H3) H']; subst. cbn [run]. unfold step. cbn [cur opt ind secs bad]. rewrite H1.
  destruct (strip l) as [|c r] eqn:E; [contradiction|]. apply Nat.ltb_lt in H3. rewrite H3.
  rewrite (IH _ i b H'). unfold add_lines. cbn [fold_left]. rewrite E. reflexivity.
Qed.
Lemma app_line_lines k x (os : list optlines) v : has_opt k os = false -> app_line k x (os ++ [(k, v)]) = os ++ [(k, v ++ [x])].
Proof.
  induction os as [|o os IH]; cbn [has_opt existsb app app_line fst snd]; intro H.
  - assert (E : zlist_eqb k k = true) by (clear; induction k as [|c k IH]; cbn; [reflexivity|rewrite Z.eqb_refl; exact IH]). rewrite E. reflexivity.
  - apply orb_false_iff in H. destruct H as [H1 H2]. rewrite H1. f_equal. apply IH, H2.
Qed.

(* ---- a whole (small) file: one section, one option, written with any indentation, either delimiter, any blanks around
        it, and any number of continuation lines *)
Lemma lstrip_app_nonsp u d v : is_sp d = false -> lstrip (u ++ d :: v) = lstrip u ++ d :: v.
Proof.
  intro Hd. induction u as [|c u IH]; cbn [app lstrip]; [rewrite Hd; reflexivity|]. destruct (is_sp c); [exact IH|reflexivity].
Qed.
Lemma rstrip_app_nonsp a d r : is_sp d = false -> rstrip (a ++ d :: r) = a ++ d :: rstrip r.
Proof.
  intro Hd. unfold rstrip. rewrite rev_app_distr. cbn [rev]. rewrite <- app_assoc. cbn [app].
  rewrite (lstrip_app_nonsp _ _ _ Hd), rev_app_distr. cbn [rev]. rewrite rev_involutive, <- app_assoc. reflexivity.
Qed.
Lemma rstrip_all_sp w : all_sp w -> rstrip w = [].
Proof. intro H. unfold rstrip. rewrite (lstrip_all_sp _ (all_sp_rev _ H)). reflexivity. Qed.
Lemma lstrip_rstrip_comm m : lstrip (rstrip m) = rstrip (lstrip m).
Proof.
  destruct (lstrip_suffix m) as (w & Hw & E). destruct (lstrip m) as [|c r] eqn:El.
  - rewrite app_nil_r in E. subst m. rewrite (rstrip_all_sp _ Hw). reflexivity.
  - pose proof (lstrip_head _ _ _ El) as Hc. rewrite E, (rstrip_app_nonsp _ _ _ Hc), (lstrip_app_ws _ _ Hw), (lstrip_nosp _ _ Hc).
    change (c :: r) with ([] ++ c :: r). rewrite (rstrip_app_nonsp [] _ _ Hc). reflexivity.
Qed.
Lemma strip_rstrip m : strip (rstrip m) = strip m.
Proof. unfold strip. rewrite lstrip_rstrip_comm, rstrip_idem. reflexivity. Qed.

Lemma last_index_none x l : forall i acc, forallb (fun c => negb (c =? x)) l = true -> last_index x l i acc = acc.
Proof.
  induction l as [|c l IH]; intros i acc H; [reflexivity|]. cbn [forallb] in H. apply andb_true_iff in H. destruct H as [Hc Hl].
  apply negb_true_iff in Hc. cbn [last_index]. rewrite Hc. apply IH, Hl.
Qed.
Lemma last_index_end x l : forall i acc, forallb (fun c => negb (c =? x)) l = true -> last_index x (l ++ [x]) i acc = Some (i + length l)%nat.
Proof.
  induction l as [|c l IH]; intros i acc H.
  - cbn. rewrite Z.eqb_refl. f_equal. lia.
  - cbn [forallb] in H. apply andb_true_iff in H. destruct H as [Hc Hl]. apply negb_true_iff in Hc. cbn [app last_index length]. rewrite Hc, (IH _ _ Hl). f_equal. lia.
Qed.
Lemma header_of_plain h : h <> [] -> forallb (fun c => negb (c =? 93)) h = true -> header_of (91 :: h ++ [93]) = Some h.
Proof.
  intros Hn Hh. unfold header_of. change (91 =? 91) with true. cbv iota. rewrite (last_index_end _ _ _ _ Hh). cbn [Nat.add].
  assert (E : Nat.leb 1 (length h) = true) by (destruct h; [contradiction|reflexivity]). rewrite E.
  rewrite firstn_app, firstn_all, Nat.sub_diag. cbn [firstn]. rewrite app_nil_r. reflexivity.
Qed.
Lemma zlist_eqb_refl k : zlist_eqb k k = true.
Proof. induction k as [|c k IH]; cbn; [reflexivity|rewrite Z.eqb_refl; exact IH]. Qed.
Lemma add_lines_one h k v ls : add_lines h k ls [(h, [(k, v)])] = [(h, [(k, v ++ map strip ls)])].
Proof.
  revert v. induction ls as [|l ls IH]; intro v; [cbn; rewrite app_nil_r; reflexivity|]. unfold add_lines in *. cbn [fold_left upd_sect fst snd].
  rewrite zlist_eqb_refl. rewrite (app_line_lines k (strip l) [] v eq_refl : app_line k (strip l) [(k, v)] = [(k, v ++ [strip l])]).
  rewrite IH. cbn [map]. rewrite <- app_assoc. reflexivity.
Qed.

Lemma indent_of_ws w c t : all_sp w -> is_sp c = false -> indent_of (w ++ c :: t) = length w.
Proof.
  unfold all_sp. intros Hw Hc. induction w as [|e w IH]; cbn [app indent_of length]; [rewrite Hc; reflexivity|].
  cbn [forallb] in Hw. apply andb_true_iff in Hw. destruct Hw as [He Hw]. rewrite He, (IH Hw). reflexivity.
Qed.
Theorem one_option_file hi h oi key kc k' w1 d w2 x conts : key = kc :: k' ->
  all_sp hi -> h <> [] -> forallb (fun c => negb (c =? 93)) h = true ->
  all_sp oi -> is_sp kc = false -> kc <> 91 -> kc <> 35 -> kc <> 59 -> forallb (fun c => negb (is_delim c)) key = true ->
  all_sp w1 -> is_delim d = true -> all_sp w2 -> Forall (plain_line (length oi)) conts ->
  parse_ini ((hi ++ 91 :: h ++ [93]) :: (oi ++ key ++ w1 ++ d :: w2 ++ x) :: conts)
  = Some [(h, [(xform (rstrip key), final_value (strip x :: map strip conts))])].
Proof.
  intros Hkey Hhi Hh Hh93 Hoi Hkc K91 K35 K59 Hk H1 Hd H2 Hc.
  assert (Hd_sp : is_sp d = false) by (revert Hd; unfold is_delim, is_sp; lia).
  (* the header line *)
  set (hline := hi ++ 91 :: h ++ [93]).
  assert (S1 : strip hline = 91 :: h ++ [93]).
  { unfold hline, strip. rewrite (lstrip_app_ws _ _ Hhi), (lstrip_nosp 91 _ eq_refl). change (91 :: h ++ [93]) with ((91 :: h) ++ 93 :: []).
    rewrite (rstrip_app_nonsp _ 93 [] eq_refl). reflexivity. }
  (* the option line *)
  set (oline := oi ++ key ++ w1 ++ d :: w2 ++ x). set (oval := (key ++ w1) ++ d :: rstrip (w2 ++ x)).
  assert (S2 : strip oline = oval).
  { unfold oline, oval, strip. rewrite (lstrip_app_ws _ _ Hoi).
    assert (L : lstrip (key ++ w1 ++ d :: w2 ++ x) = key ++ w1 ++ d :: w2 ++ x) by (rewrite Hkey; cbn [app]; apply lstrip_nosp, Hkc).
    rewrite L, app_assoc. apply rstrip_app_nonsp, Hd_sp. }
  assert (Hhead : exists tl, oval = kc :: tl) by (unfold oval; rewrite Hkey; eexists; reflexivity).
  destruct Hhead as (tl & Hov).
  assert (I2 : indent_of oline = length oi).
  { unfold oline. rewrite Hkey. cbn [app]. apply indent_of_ws; assumption. }
  assert (O2 : option_of oval = Some (xform (rstrip key), strip x)).
  { unfold oval. rewrite <- app_assoc. change (d :: rstrip (w2 ++ x)) with (d :: [] ++ rstrip (w2 ++ x)).
    rewrite (option_line key w1 d [] (rstrip (w2 ++ x)) Hk H1 Hd eq_refl), strip_rstrip, (strip_app_ws_l _ _ H2).
    destruct (rstrip key) as [|a b] eqn:E; [|reflexivity].
    exfalso. rewrite Hkey in E. change (kc :: k') with ([] ++ kc :: k') in E. rewrite (rstrip_app_nonsp [] kc k' Hkc) in E. discriminate. }
  assert (C1 : is_comment hline = false) by (unfold is_comment; rewrite S1; reflexivity).
  assert (C2 : is_comment oline = false).
  { unfold is_comment. rewrite S2, Hov. assert (E35 : (kc =? 35) = false) by lia. assert (E59 : (kc =? 59) = false) by lia. rewrite E35, E59. reflexivity. }
  assert (H2h : header_of oval = None) by (rewrite Hov; unfold header_of; assert (E91 : (kc =? 91) = false) by lia; rewrite E91; reflexivity).
  unfold parse_ini. cbn [run].
  assert (St1 : step init hline = Go (mk [(h, [])] (Some h) None (indent_of hline) false)).
  { unfold step. rewrite C1, S1. cbn [init cur opt]. rewrite (header_of_plain _ Hh Hh93). reflexivity. }
  rewrite St1.
  assert (St2 : step (mk [(h, [])] (Some h) None (indent_of hline) false) oline
                = Go (mk [(h, [(xform (rstrip key), [strip x])])] (Some h) (Some (xform (rstrip key))) (length oi) false)).
  { unfold step. rewrite C2, S2, Hov. cbn [cur opt]. rewrite <- Hov, H2h, O2. cbn [secs bad]. unfold sect_opts, has_opt. cbn [find fst snd]. rewrite zlist_eqb_refl.
    cbn [snd existsb upd_sect fst]. rewrite zlist_eqb_refl, I2. reflexivity. }
  rewrite St2, (continuation h _ conts _ _ _ Hc). cbn [bad secs]. rewrite add_lines_one. reflexivity.
Qed.
