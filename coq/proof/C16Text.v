(* C16, definitions as text: the tree a definition text spells (model/Lexer.v + model/DefnSyntax.v: read_value) resolved against
   the registered forms and modifiers is what model/Validate.v judges; so whether a definition is accepted depends only on the
   tree it spells, not on how it is spelled. *)
From Coq Require Import ZArith List Bool.
From V Require Import lib.Common model.DefnSyntax model.Lexer model.Validate proof.C09Syntax proof.C09Lexer proof.C16.
Import ListNotations.
Local Open Scope Z_scope.

Section Resolve.
  Variable reg : nat -> label.          (* what an identifier names among the potential forms: arity, constant, spline keyword, unknown *)
  Variable mreg : nat -> modname.       (* ... and among the modifiers *)
  Variable z0 : Z.                      (* the start of the default range ">0" *)
  Fixpoint resolve (d : rdefn) : defn :=
    match d with
    | RDefn first p rest =>
        Defn ((match first with Some s => snd s | None => z0 end, resolve_p p)
              :: (fix rs (l : list (rstart * rpart)) : list (Z * part) := match l with [] => [] | (s, q) :: r => (snd s, resolve_p q) :: rs r end) rest)
    end
  with resolve_p (p : rpart) : part :=
    match p with
    | RInst l ps => PInst {| i_label := reg l; i_params := ps |}
    | RMod n a args => PMod (mreg n) (resolve a :: (fix ra (l : list rdefn) : list defn := match l with [] => [] | d :: r => resolve d :: ra r end) args)
    end.

  Variable idn : list Z -> nat.
  Variable numv : list Z -> Z.
  (* what the builders do with the text of a definition: read it; a text that spells no tree is a configuration error
     (ConfigParser._parse_multi_range, asserted), a tree is judged by ok_defn *)
  Definition accept_text (text : list Z) : bool :=
    match read_value idn numv text with Some d => ok_defn (resolve d) | None => false end.

  Theorem accept_spelling d cts sp tr : map (abs_tok idn numv) cts = print_defn d -> forallb tok_ok cts = true ->
    seps_ok false cts sp = true -> forallb is_ws tr = true -> accept_text (render cts sp tr) = ok_defn (resolve d).
  Proof. intros E A B C. unfold accept_text. rewrite (text_roundtrip idn numv d cts sp tr E A B C). reflexivity. Qed.
  Theorem accept_ws a w1 w2 b : forallb is_ws w1 = true -> forallb is_ws w2 = true -> w1 <> [] -> w2 <> [] ->
    accept_text (a ++ w1 ++ b) = accept_text (a ++ w2 ++ b).
  Proof. intros. unfold accept_text. rewrite (read_ws_run idn numv a w1 w2 b) by assumption. reflexivity. Qed.
  Theorem reject_unreadable text : read_value idn numv text = None -> accept_text text = false.
  Proof. intro H. unfold accept_text. rewrite H. reflexivity. Qed.
End Resolve.
