(* C07, ZBL: deriv and deriv2 are the derivatives of __call__ / deriv for the ideal constant
   k = 1/(0.8854*0.529) (and 14.39942*k^2); the literals in the source are within 1e-13 of them.
   The literal sits inside exponentials, so turning "exact for the ideal constant" + "literal close"
   into a bound on the offered derivative needs a continuity estimate that is NOT mechanised:
   the property-level theorems built on these lemmas are named ..._partial. *)
From Coq Require Import Reals Lra List.
From Coquelicot Require Import Coquelicot.
From Interval Require Import Tactic.
From V Require Import lib.RLib lib.RTactics gen.PotFuncs spec.Forms.
Import ListNotations.
Local Open Scope R_scope.

Definition zbl_k : R := 1 / (8854 / 10000 * (529 / 1000)).

Ltac zbl_main t s b1 b2 b3 b4 :=
  exp_canon ltac:(unfold t, zbl_k, b1, b2, b3, b4) (- b1 * t); exp_canon ltac:(unfold t, zbl_k, b1, b2, b3, b4) (- b2 * t);
  exp_canon ltac:(unfold t, zbl_k, b1, b2, b3, b4) (- b3 * t); exp_canon ltac:(unfold t, zbl_k, b1, b2, b3, b4) (- b4 * t);
  exp_canon ltac:(unfold t, zbl_k, b1, b2, b3, b4) ((b2 + b3 + b4) * t); exp_canon ltac:(unfold t, zbl_k, b1, b2, b3, b4) ((b1 + b3 + b4) * t);
  exp_canon ltac:(unfold t, zbl_k, b1, b2, b3, b4) ((b1 + b2 + b4) * t); exp_canon ltac:(unfold t, zbl_k, b1, b2, b3, b4) ((b1 + b2 + b3) * t);
  exp_canon ltac:(unfold t, zbl_k, b1, b2, b3, b4) (- (b1 + b2 + b3 + b4) * t);
  let E1 := fresh "E1" in let E2 := fresh "E2" in let E3 := fresh "E3" in let E4 := fresh "E4" in
  set (E1 := exp (- b1 * t)); set (E2 := exp (- b2 * t)); set (E3 := exp (- b3 * t)); set (E4 := exp (- b4 * t));
  assert (0 < E1) by apply exp_pos; assert (0 < E2) by apply exp_pos;
  assert (0 < E3) by apply exp_pos; assert (0 < E4) by apply exp_pos;
  try replace (exp ((b2 + b3 + b4) * t)) with (/ (E2 * E3 * E4)) by (unfold E2, E3, E4; rewrite <- !exp_plus, <- exp_Ropp; f_equal; ring);
  try replace (exp ((b1 + b3 + b4) * t)) with (/ (E1 * E3 * E4)) by (unfold E1, E3, E4; rewrite <- !exp_plus, <- exp_Ropp; f_equal; ring);
  try replace (exp ((b1 + b2 + b4) * t)) with (/ (E1 * E2 * E4)) by (unfold E1, E2, E4; rewrite <- !exp_plus, <- exp_Ropp; f_equal; ring);
  try replace (exp ((b1 + b2 + b3) * t)) with (/ (E1 * E2 * E3)) by (unfold E1, E2, E3; rewrite <- !exp_plus, <- exp_Ropp; f_equal; ring);
  try replace (exp (- (b1 + b2 + b3 + b4) * t)) with (E1 * E2 * E3 * E4) by (unfold E1, E2, E3, E4; rewrite <- !exp_plus; f_equal; ring);
  unfold t, zbl_k, b1, b2, b3, b4, s; field; dside.

Lemma zbl_d r z1 z2 : r <> 0 -> 0 < z1 -> 0 < z2 ->
  is_derive (fun x => zbl_call x z1 z2) r (zbl_deriv_K zbl_k r z1 z2).
Proof.
  intros Hr H1 H2. unfold zbl_call, zbl_deriv_K. cbv zeta.
  set (p1 := Rpower z1 (23 / 100)). set (p2 := Rpower z2 (23 / 100)).
  assert (Hp1 : 0 < p1) by apply exp_pos. assert (Hp2 : 0 < p2) by apply exp_pos.
  set (s := p1 + p2). assert (Hs : 0 < s) by (unfold s; lra).
  auto_derive; [dside|].
  set (t := zbl_k * r * s).
  set (b1 := 16 / 5). set (b2 := 9423 / 10000). set (b3 := 4029 / 10000). set (b4 := 126 / 625).
  zbl_main t s b1 b2 b3 b4.
Qed.

Lemma zbl_d2 r z1 z2 : r <> 0 -> 0 < z1 -> 0 < z2 ->
  is_derive (fun x => zbl_deriv_K zbl_k x z1 z2) r (zbl_deriv2_K (1439942 / 100000 * zbl_k ^ 2) zbl_k r z1 z2).
Proof.
  intros Hr H1 H2. unfold zbl_deriv2_K, zbl_deriv_K. cbv zeta.
  set (p1 := Rpower z1 (23 / 100)). set (p2 := Rpower z2 (23 / 100)).
  assert (Hp1 : 0 < p1) by apply exp_pos. assert (Hp2 : 0 < p2) by apply exp_pos.
  set (s := p1 + p2). assert (Hs : 0 < s) by (unfold s; lra).
  auto_derive; [dside|].
  set (t := zbl_k * r * s).
  set (b1 := 16 / 5). set (b2 := 9423 / 10000). set (b3 := 4029 / 10000). set (b4 := 126 / 625).
  zbl_main t s b1 b2 b3 b4.
Qed.

Lemma zbl_constants :
  Forall2 lit_close zbl_deriv_lits [zbl_k] /\ Forall2 lit_close zbl_deriv2_lits [1439942 / 100000 * zbl_k ^ 2; zbl_k].
Proof. unfold zbl_deriv_lits, zbl_deriv2_lits, lit_close, zbl_k. split; repeat constructor; interval with (i_prec 100). Qed.
