(* C15 at the level of characters (model/TextInterp.v): a value is cut into literal text and placeholders as it was written, and
   interpolation is textual substitution. *)
From Coq Require Import ZArith List Bool Lia ZifyBool.
From V Require Import lib.Common model.Ini model.TextInterp proof.IniProofs.
Import ListNotations.
Local Open Scope Z_scope.

Definition free_of (c : Z) (l : list Z) : Prop := forallb (fun x => negb (x =? c)) l = true.
Definition text_of (fr : tfrag) : list Z :=
  match fr with TLit s => s | TDollar => [36; 36] | TVar n => 36 :: 123 :: n ++ [125] | TRef s k => 36 :: 123 :: s ++ 58 :: k ++ [125] end.
Definition render (frs : list tfrag) : list Z := flat_map text_of frs.
Definition is_lit (fr : tfrag) : bool := match fr with TLit _ => true | _ => false end.
(* literals are non-empty, without "$", and never adjacent; names are non-empty, already in the form optionxform gives them,
   without "}" and ":" *)
Definition name_ok (n : list Z) : Prop := n <> [] /\ free_of 125 n /\ free_of 58 n.
Definition frag_ok (fr : tfrag) : Prop :=
  match fr with
  | TLit s => s <> [] /\ free_of 36 s
  | TDollar => True
  | TVar n => name_ok n /\ xform n = n
  | TRef s k => name_ok s /\ name_ok k /\ xform k = k
  end.
Fixpoint frags_ok (frs : list tfrag) : Prop :=
  match frs with
  | [] => True
  | fr :: r => frag_ok fr /\ (is_lit fr = true -> match r with f2 :: _ => is_lit f2 = false | [] => True end) /\ frags_ok r
  end.

Lemma tlex_skip a : forall lit rest, tlex (length a) lit (a ++ rest) = tlex 0 lit rest.
Proof. induction a as [|c a IH]; intros lit rest; [reflexivity|]. cbn [length app tlex]. apply IH. Qed.
Lemma tlex_lit s : forall lit rest, free_of 36 s -> tlex 0 lit (s ++ rest) = tlex 0 (rev s ++ lit) rest.
Proof.
  unfold free_of. induction s as [|c s IH]; intros lit rest H; [reflexivity|]. cbn [forallb] in H. apply andb_true_iff in H. destruct H as [Hc Hs].
  apply negb_true_iff in Hc. cbn [app tlex]. rewrite Hc, (IH _ _ Hs). cbn [rev]. rewrite <- app_assoc. reflexivity.
Qed.
Lemma upto_brace_app n rest : free_of 125 n -> upto_brace (n ++ 125 :: rest) = Some (n, rest).
Proof.
  unfold free_of. induction n as [|c n IH]; intro H; cbn [app upto_brace]; [reflexivity|]. cbn [forallb] in H. apply andb_true_iff in H. destruct H as [Hc Hn].
  apply negb_true_iff in Hc. rewrite Hc, (IH Hn). reflexivity.
Qed.
Lemma split_colon_none n : free_of 58 n -> split_colon n = [n].
Proof.
  unfold free_of. induction n as [|c n IH]; intro H; [reflexivity|]. cbn [forallb] in H. apply andb_true_iff in H. destruct H as [Hc Hn].
  apply negb_true_iff in Hc. cbn [split_colon]. rewrite Hc, (IH Hn). reflexivity.
Qed.
Lemma split_colon_one s k : free_of 58 s -> free_of 58 k -> split_colon (s ++ 58 :: k) = [s; k].
Proof.
  unfold free_of. intros Hs Hk. induction s as [|c s IH]; cbn [app split_colon].
  - rewrite (split_colon_none k Hk). reflexivity.
  - cbn [forallb] in Hs. apply andb_true_iff in Hs. destruct Hs as [Hc Hs]. apply negb_true_iff in Hc. rewrite Hc, (IH Hs). reflexivity.
Qed.
Lemma free_app c a b : free_of c a -> free_of c b -> free_of c (a ++ b).
Proof. unfold free_of. intros Ha Hb. rewrite forallb_app, Ha, Hb. reflexivity. Qed.

Theorem tlex_render frs : forall lit, frags_ok frs -> (lit <> [] -> match frs with f :: _ => is_lit f = false | [] => True end) ->
  tlex 0 lit (render frs) = Some (flush lit frs).
Proof.
  induction frs as [|fr r IH]; intros lit Hok Hlit; [reflexivity|]. destruct Hok as (Hf & Hadj & Hr). unfold render. cbn [flat_map]. fold (render r).
  destruct fr as [s| |n|s k]; cbn [text_of frag_ok is_lit] in *.
  - destruct Hf as [Hne Hs]. assert (lit = []) by (destruct lit; [reflexivity|specialize (Hlit ltac:(discriminate)); discriminate]). subst lit.
    rewrite (tlex_lit s [] _ Hs), app_nil_r, (IH (rev s) Hr).
    + unfold flush. destruct (rev s) eqn:E; [apply (f_equal (@rev Z)) in E; rewrite rev_involutive in E; contradiction|]. rewrite <- E, rev_involutive. reflexivity.
    + intros _. specialize (Hadj eq_refl). exact Hadj.
  - cbn [app tlex]. change (36 =? 36) with true. cbv iota. cbn [tlex]. rewrite (IH [] Hr (fun H => match H eq_refl with end)). reflexivity.
  - destruct Hf as [(Hne & H125 & H58) Hx]. cbn [app tlex]. change (36 =? 36) with true. change (123 =? 36) with false. change (123 =? 123) with true. cbv iota.
    rewrite <- app_assoc. cbn [app]. rewrite (upto_brace_app n _ H125). destruct n as [|c0 n0] eqn:En; [contradiction|]. rewrite <- En in *.
    rewrite (split_colon_none n H58), Hx.
    assert (E2 : n ++ 125 :: render r = (n ++ [125]) ++ render r) by (rewrite <- app_assoc; reflexivity).
    rewrite E2. replace (S (length n)) with (length (n ++ [125])) by (rewrite app_length; cbn; lia).
    rewrite tlex_skip, (IH [] Hr (fun H => match H eq_refl with end)). subst n. reflexivity.
  - destruct Hf as ((Hns & Hs125 & Hs58) & (Hnk & Hk125 & Hk58) & Hx). cbn [app tlex]. change (36 =? 36) with true. change (123 =? 36) with false. change (123 =? 123) with true. cbv iota.
    assert (E : (s ++ 58 :: k ++ [125]) ++ render r = (s ++ 58 :: k) ++ 125 :: render r) by (rewrite <- !app_assoc; cbn [app]; rewrite <- app_assoc; reflexivity).
    rewrite E. assert (F : free_of 125 (s ++ 58 :: k)) by (apply free_app; [exact Hs125|unfold free_of in *; cbn [forallb]; rewrite Hk125; reflexivity]).
    rewrite (upto_brace_app _ _ F). destruct (s ++ 58 :: k) as [|c0 p0] eqn:Ep; [destruct s; discriminate|]. rewrite <- Ep in *.
    rewrite (split_colon_one s k Hs58 Hk58), Hx.
    assert (E2 : (s ++ 58 :: k) ++ 125 :: render r = ((s ++ 58 :: k) ++ [125]) ++ render r) by (rewrite <- (app_assoc (s ++ 58 :: k) [125]); reflexivity).
    rewrite E2. replace (S (length (s ++ 58 :: k))) with (length ((s ++ 58 :: k) ++ [125])) by (rewrite (app_length (s ++ 58 :: k) [125]); cbn; lia).
    rewrite tlex_skip, (IH [] Hr (fun H => match H eq_refl with end)). reflexivity.
Qed.
Theorem template_render frs : frags_ok frs -> template (render frs) = Some frs.
Proof. intro H. unfold template. rewrite (tlex_render frs [] H (fun E => match E eq_refl with end)). reflexivity. Qed.

(* ---- substitution.  A text without "$" is its own value; a text whose placeholders name values without "$" is the text with
        those values written in their place. *)
Definition value_of (st : tstore) (s : list Z) (fr : tfrag) : option (list Z) :=
  match fr with TLit t => Some t | TDollar => Some [36] | TVar n => lookup_name st s n | TRef s' k => lookup_ref st s' k end.
Fixpoint substituted (st : tstore) (s : list Z) (frs : list tfrag) : option (list Z) :=
  match frs with
  | [] => Some []
  | fr :: r => match value_of st s fr, substituted st s r with Some v, Some rest => Some (v ++ rest) | _, _ => None end
  end.
Definition plain_values (st : tstore) (s : list Z) (frs : list tfrag) : Prop :=
  Forall (fun fr => match fr with TVar _ | TRef _ _ => match value_of st s fr with Some v => has_dollar v = false | None => True end | _ => True end) frs.
Theorem interp_is_substitution st s frs f : frags_ok frs -> plain_values st s frs -> tinterp (S f) st s (render frs) = substituted st s frs.
Proof.
  intros Hok Hp. cbn [tinterp]. rewrite (template_render frs Hok). clear Hok. induction Hp as [|fr r Hfr _ IH]; [reflexivity|].
  cbn [fold_right substituted]. rewrite IH. destruct (substituted st s r) as [rest|].
  - destruct fr as [t| |n|s' k]; cbn [value_of] in *; try reflexivity.
    + destruct (lookup_name st s n) as [v|]; [rewrite Hfr|]; reflexivity.
    + destruct (lookup_ref st s' k) as [v|]; [rewrite Hfr|]; reflexivity.
  - destruct (value_of st s fr); reflexivity.
Qed.
(* ${NAME} is [Variables] first, whatever the section holds under that name *)
Theorem name_variables_first st s n v : opt_of n (defaults st) = Some v -> lookup_name st s n = Some v.
Proof. intro H. unfold lookup_name. rewrite H. reflexivity. Qed.
