(* C09, character level: lexing a rendering gives back the tokens, whatever the whitespace (model/Lexer.v). *)
From Coq Require Import ZArith List Bool Lia ZifyBool.
From V Require Import lib.Common model.DefnSyntax model.Lexer proof.C09Syntax.
Import ListNotations.
Local Open Scope Z_scope.

(* what may follow a word-like token in a rendering: whitespace, a bracket, a comma, a range marker *)
Definition delim (c : Z) : bool := is_ws c || (c =? 40) || (c =? 41) || (c =? 44) || (c =? 62).
Definition safe (l : list Z) : Prop := match l with [] => True | c :: _ => delim c = true end.
Definition noeq (l : list Z) : Prop := match l with [] => True | c :: _ => c <> 61 end.

Lemma delim_not c : delim c = true ->
  is_digit c = false /\ is_e c = false /\ is_sign c = false /\ is_dot c = false /\ is_idbody c = false /\ is_idstart c = false /\ is_wordchar c = false.
Proof.
  unfold delim, is_ws, is_digit, is_e, is_sign, is_dot, is_wordchar, is_idbody, is_idstart, is_upper, is_lower, is_digit. intro H.
  repeat split; lia.
Qed.
Lemma ws_delim c : is_ws c = true -> delim c = true.
Proof. unfold delim. intros ->. reflexivity. Qed.

Lemma list_eqb_eq a : forall b, list_eqb a b = true -> a = b.
Proof.
  induction a as [|x a IH]; intros [|y b] H; cbn in H; try discriminate; [reflexivity|].
  apply andb_true_iff in H. destruct H as [H1 H2]. apply Z.eqb_eq in H1. subst. f_equal. apply IH, H2.
Qed.
Lemma list_eqb_refl a : list_eqb a a = true.
Proof. induction a as [|x a IH]; cbn; [reflexivity|]. rewrite Z.eqb_refl. exact IH. Qed.

(* --- each terminal reads the same thing when the text continues with a delimiter (or ends) *)
Definition stops (p : Z -> bool) (rest : list Z) : Prop := match rest with [] => True | c :: _ => p c = false end.
Lemma span_app p a rest : stops p rest -> span p (a ++ rest) = (let '(x, y) := span p a in (x, y ++ rest)).
Proof.
  intro H. induction a as [|c a IH]; cbn [app span].
  - destruct rest as [|c r]; [reflexivity|]. cbn in H. cbn [span]. rewrite H. reflexivity.
  - destruct (p c); [|reflexivity]. rewrite IH. destruct (span p a). reflexivity.
Qed.
Lemma safe_stops_digit rest : safe rest -> stops is_digit rest.
Proof. destruct rest as [|c r]; [exact (fun _ => I)|]. cbn. intro H. apply (delim_not c H). Qed.

Definition ext (rest : list Z) (o : option (list Z * list Z)) : option (list Z * list Z) :=
  match o with Some (x, y) => Some (x, y ++ rest) | None => None end.

Lemma digits1_app a rest : safe rest -> digits1 (a ++ rest) = ext rest (digits1 a).
Proof.
  intro H. unfold digits1. rewrite (span_app _ _ _ (safe_stops_digit _ H)). destruct (span is_digit a) as [[|d ds] y]; reflexivity.
Qed.
Lemma digits1_rest rest : safe rest -> digits1 rest = None.
Proof.
  intro H. destruct rest as [|c r]; [reflexivity|]. cbn in H. unfold digits1. cbn [span]. rewrite (proj1 (delim_not c H)). reflexivity.
Qed.
Lemma exponent_app a rest : safe rest -> exponent (a ++ rest) = ext rest (exponent a).
Proof.
  intro H. destruct a as [|c r]; cbn [app].
  - destruct rest as [|c r]; [reflexivity|]. cbn in H. cbn [exponent]. rewrite (proj1 (proj2 (delim_not c H))). reflexivity.
  - cbn [exponent]. destruct (is_e c); [|reflexivity]. destruct r as [|s r']; cbn [app].
    + destruct rest as [|d r2]; [reflexivity|]. pose proof H as H'. cbn in H'. rewrite (proj1 (proj2 (proj2 (delim_not d H')))).
      rewrite (digits1_rest _ H). reflexivity.
    + destruct (is_sign s).
      * rewrite (digits1_app _ _ H). destruct (digits1 r') as [[ds r2]|]; reflexivity.
      * change (s :: r' ++ rest) with ((s :: r') ++ rest). rewrite (digits1_app _ _ H). destruct (digits1 (s :: r')) as [[ds r2]|]; reflexivity.
Qed.
Lemma with_exponent_app pre a rest : safe rest -> with_exponent pre (a ++ rest) = (let '(x, y) := with_exponent pre a in (x, y ++ rest)).
Proof. intro H. unfold with_exponent. rewrite (exponent_app _ _ H). destruct (exponent a) as [[ex r']|]; reflexivity. Qed.

Lemma unsigned_number_app a rest : safe rest -> unsigned_number (a ++ rest) = ext rest (unsigned_number a).
Proof.
  intro H. unfold unsigned_number. rewrite (span_app _ _ _ (safe_stops_digit _ H)). destruct (span is_digit a) as [ds y].
  destruct ds as [|d0 ds].
  - destruct y as [|d r1]; cbn [app].
    + destruct rest as [|c r]; [reflexivity|]. pose proof H as H'. cbn in H'.
      rewrite (proj1 (proj2 (proj2 (proj2 (delim_not c H'))))). reflexivity.
    + destruct (is_dot d); [|reflexivity]. rewrite (digits1_app _ _ H). destruct (digits1 r1) as [[fs r2]|]; [|reflexivity].
      cbn [ext]. rewrite (with_exponent_app _ _ _ H). destruct (with_exponent (d :: fs) r2). reflexivity.
  - rewrite (exponent_app _ _ H). destruct (exponent y) as [[ex r1]|]; [reflexivity|]. cbn [ext].
    destruct y as [|d r1]; cbn [app].
    + destruct rest as [|c r]; [reflexivity|]. pose proof H as H'. cbn in H'.
      rewrite (proj1 (proj2 (proj2 (proj2 (delim_not c H'))))). reflexivity.
    + destruct (is_dot d); [|reflexivity]. rewrite (span_app _ _ _ (safe_stops_digit _ H)). destruct (span is_digit r1) as [fs r2].
      rewrite (with_exponent_app _ _ _ H). destruct (with_exponent _ r2). reflexivity.
Qed.
Lemma number_app a rest : safe rest -> number (a ++ rest) = ext rest (number a).
Proof.
  intro H. destruct a as [|c r]; cbn [app].
  - destruct rest as [|c r]; [reflexivity|]. pose proof H as H'. cbn in H'. destruct (delim_not c H') as (Hd & _ & Hs & Hdot & _).
    cbn [number]. rewrite Hs. unfold unsigned_number. cbn [span]. rewrite Hd, Hdot. reflexivity.
  - cbn [number]. destruct (is_sign c).
    + rewrite (unsigned_number_app _ _ H). destruct (unsigned_number r) as [[s r']|]; reflexivity.
    + change (c :: r ++ rest) with ((c :: r) ++ rest). apply (unsigned_number_app _ _ H).
Qed.
Lemma number_ok_app s rest : number_ok s = true -> safe rest -> number (s ++ rest) = Some (s, rest).
Proof.
  unfold number_ok. intros Hs H. rewrite (number_app _ _ H). destruct (number s) as [[x y]|]; [|discriminate].
  apply andb_true_iff in Hs. destruct Hs as [Hx Hy]. apply list_eqb_eq in Hx. apply list_eqb_eq in Hy. subst. reflexivity.
Qed.
Lemma number_head c r x : number (c :: r) = Some x -> (is_sign c || is_digit c || is_dot c) = true.
Proof.
  cbn [number]. destruct (is_sign c); [reflexivity|]. unfold unsigned_number. cbn [span]. destruct (is_digit c); [reflexivity|].
  destruct (is_dot c); [reflexivity|discriminate].
Qed.
Lemma number_ok_head s : number_ok s = true -> exists c r, s = c :: r /\ (is_sign c || is_digit c || is_dot c) = true.
Proof.
  unfold number_ok. destruct s as [|c r]; [discriminate|]. destruct (number (c :: r)) as [x|] eqn:E; [|discriminate].
  intros _. exists c, r. split; [reflexivity|]. exact (number_head _ _ _ E).
Qed.

Lemma id_body_app_n n : forall a rest, (length a <= n)%nat -> safe rest -> id_body (a ++ rest) = (let '(x, y) := id_body a in (x, y ++ rest)).
Proof.
  induction n as [|n IH]; intros a rest Hl H.
  - destruct a; [|cbn in Hl; lia]. cbn [app]. destruct rest as [|c r]; [reflexivity|]. pose proof H as H'. cbn in H'.
    destruct (delim_not c H') as (_ & _ & _ & Hdot & Hb & _). cbn [id_body]. rewrite Hb, Hdot. reflexivity.
  - destruct a as [|c r].
    + cbn [app]. destruct rest as [|c r]; [reflexivity|]. pose proof H as H'. cbn in H'.
      destruct (delim_not c H') as (_ & _ & _ & Hdot & Hb & _). cbn [id_body]. rewrite Hb, Hdot. reflexivity.
    + cbn [app id_body]. cbn in Hl. destruct (is_idbody c).
      * rewrite (IH r rest); [|lia|exact H]. destruct (id_body r). reflexivity.
      * destruct (is_dot c); [|reflexivity]. destruct r as [|d r2]; cbn [app].
        -- destruct rest as [|e r3]; [reflexivity|]. pose proof H as H'. cbn in H'.
           destruct (delim_not e H') as (_ & _ & _ & _ & _ & Hst & _). rewrite Hst. reflexivity.
        -- destruct (is_idstart d); [|reflexivity]. cbn in Hl. rewrite (IH r2 rest); [|lia|exact H]. destruct (id_body r2). reflexivity.
Qed.
Lemma id_body_ok_app b rest : (let '(x, y) := id_body b in list_eqb x b && list_eqb y []) = true -> safe rest -> id_body (b ++ rest) = (b, rest).
Proof.
  intros Hb H. rewrite (id_body_app_n (length b) b rest (le_n _) H). destruct (id_body b) as [x y].
  apply andb_true_iff in Hb. destruct Hb as [Hx Hy]. apply list_eqb_eq in Hx. apply list_eqb_eq in Hy. subst. reflexivity.
Qed.

(* --- the main loop *)
Lemma lexa_skip a rest : lexa (length a) (a ++ rest) = lexa 0 rest.
Proof. induction a as [|c a IH]; [reflexivity|]. cbn [length app lexa]. exact IH. Qed.
Lemma lexa_ws s l : forallb is_ws s = true -> lexa 0 (s ++ l) = lexa 0 l.
Proof.
  induction s as [|c s IH]; intro H; [reflexivity|]. cbn [forallb] in H. apply andb_true_iff in H. destruct H as [Hc Hs].
  cbn [app lexa]. rewrite Hc. exact (IH Hs).
Qed.
Lemma lexa_ws_only tr : forallb is_ws tr = true -> lexa 0 tr = Some [].
Proof. intro H. rewrite <- (app_nil_r tr). rewrite (lexa_ws _ _ H). reflexivity. Qed.

Definition then_tok (t : ctok) (o : option (list ctok)) : option (list ctok) := match o with Some ts => Some (t :: ts) | None => None end.

Lemma lex_ident s rest : ident_ok s = true -> safe rest -> lexa 0 (s ++ rest) = then_tok (CId s) (lexa 0 rest).
Proof.
  unfold ident_ok. destruct s as [|c b]; [discriminate|]. intros Hs H. apply andb_true_iff in Hs. destruct Hs as [Hc Hb].
  cbn [app lexa]. assert (Hw : is_ws c = false) by (revert Hc; unfold is_idstart, is_upper, is_lower, is_ws; lia). rewrite Hw.
  assert (H40 : (c =? 40) = false /\ (c =? 41) = false /\ (c =? 44) = false /\ (c =? 62) = false) by (revert Hc; unfold is_idstart, is_upper, is_lower; lia).
  destruct H40 as (E1 & E2 & E3 & E4). cbn [scan]. rewrite E1, E2, E3, E4, Hc. rewrite (id_body_ok_app _ _ Hb H).
  cbn [pred]. rewrite lexa_skip. reflexivity.
Qed.
Lemma lex_number s rest : number_ok s = true -> safe rest -> lexa 0 (s ++ rest) = then_tok (CNum s true) (lexa 0 rest).
Proof.
  intros Hs H. destruct (number_ok_head _ Hs) as (c & r & -> & Hc). pose proof (number_ok_app _ _ Hs H) as E.
  change ((c :: r) ++ rest) with (c :: r ++ rest) in *. cbn [lexa].
  assert (Hw : is_ws c = false) by (revert Hc; unfold is_sign, is_digit, is_dot, is_ws; lia). rewrite Hw.
  assert (H40 : (c =? 40) = false /\ (c =? 41) = false /\ (c =? 44) = false /\ (c =? 62) = false /\ is_idstart c = false)
    by (revert Hc; unfold is_sign, is_digit, is_dot, is_idstart, is_upper, is_lower; lia).
  destruct H40 as (E1 & E2 & E3 & E4 & E5). unfold scan. rewrite E1, E2, E3, E4, E5, E.
  assert (Hwe : wordend rest = true).
  { destruct rest as [|d r2]; [reflexivity|]. cbn in H. cbn. rewrite (proj2 (proj2 (proj2 (proj2 (proj2 (proj2 (delim_not d H))))))). reflexivity. }
  rewrite Hwe. cbn [length pred]. rewrite lexa_skip. reflexivity.
Qed.
Lemma lex_tok t rest : tok_ok t = true -> (wordlike t = true -> safe rest) -> noeq rest -> lexa 0 (text_of t ++ rest) = then_tok t (lexa 0 rest).
Proof.
  intros Ht Hs Hn. destruct t as [s|s w| | | | |]; cbn [text_of].
  - apply lex_ident; [exact Ht|apply Hs; reflexivity].
  - cbn [tok_ok] in Ht. apply andb_true_iff in Ht. destruct Ht as [Ht ->]. apply lex_number; [exact Ht|apply Hs; reflexivity].
  - cbn [app lexa]. change (is_ws 62) with false. cbv iota. unfold scan. change (62 =? 40) with false. change (62 =? 41) with false.
    change (62 =? 44) with false. change (62 =? 62) with true. cbv iota.
    destruct rest as [|d r]; [reflexivity|]. cbn in Hn. destruct (d =? 61) eqn:E; [apply Z.eqb_eq in E; contradiction|]. reflexivity.
  - reflexivity.
  - reflexivity.
  - reflexivity.
  - reflexivity.
Qed.

Lemma text_head t : tok_ok t = true -> exists c r, text_of t = c :: r /\ c <> 61 /\ is_ws c = false /\ (wordlike t = false -> delim c = true).
Proof.
  intro Ht. destruct t as [s|s w| | | | |]; cbn [text_of wordlike].
  - unfold tok_ok, ident_ok in Ht. destruct s as [|c b]; [discriminate|]. apply andb_true_iff in Ht. destruct Ht as [Hc _].
    exists c, b. split; [reflexivity|]. split; [|split; [|discriminate]]; revert Hc; unfold is_idstart, is_upper, is_lower, is_ws; lia.
  - cbn [tok_ok] in Ht. apply andb_true_iff in Ht. destruct Ht as [Ht _]. destruct (number_ok_head _ Ht) as (c & r & -> & Hc).
    exists c, r. split; [reflexivity|]. split; [|split; [|discriminate]]; revert Hc; unfold is_sign, is_digit, is_dot, is_ws; lia.
  - exists 62, []. split; [reflexivity|]. split; [lia|]. split; [reflexivity|intros _; reflexivity].
  - exists 62, [61]. split; [reflexivity|]. split; [lia|]. split; [reflexivity|intros _; reflexivity].
  - exists 40, []. split; [reflexivity|]. split; [lia|]. split; [reflexivity|intros _; reflexivity].
  - exists 41, []. split; [reflexivity|]. split; [lia|]. split; [reflexivity|intros _; reflexivity].
  - exists 44, []. split; [reflexivity|]. split; [lia|]. split; [reflexivity|intros _; reflexivity].
Qed.

Lemma ws_head s l : forallb is_ws s = true -> s <> [] -> safe (s ++ l) /\ noeq (s ++ l).
Proof.
  destruct s as [|c s]; [contradiction|]. cbn [forallb]. intros H _. apply andb_true_iff in H. destruct H as [Hc _].
  cbn. split; [apply ws_delim, Hc|]. revert Hc. unfold is_ws. lia.
Qed.

Lemma lex_render_gen ts : forall prevw sp tr, forallb tok_ok ts = true -> seps_ok prevw ts sp = true -> forallb is_ws tr = true ->
  lexa 0 (render ts sp tr) = Some ts /\ (prevw = true -> safe (render ts sp tr)) /\ noeq (render ts sp tr).
Proof.
  induction ts as [|t ts IH]; intros prevw sp tr Hok Hsep Htr.
  - destruct sp; [|discriminate]. cbn [render]. split; [apply lexa_ws_only, Htr|].
    destruct tr as [|c r]; [split; [intros _|]; exact I|]. destruct (ws_head (c :: r) [] Htr ltac:(discriminate)) as [A B].
    rewrite app_nil_r in A, B. split; [intros _; exact A|exact B].
  - destruct sp as [|s sp]; [discriminate|]. cbn [seps_ok] in Hsep. apply andb_true_iff in Hsep. destruct Hsep as [Hsep Hrest].
    apply andb_true_iff in Hsep. destruct Hsep as [Hws Hne]. cbn [forallb] in Hok. apply andb_true_iff in Hok. destruct Hok as [Ht Hok].
    destruct (IH (wordlike t) sp tr Hok Hrest Htr) as (L & S & N). cbn [render].
    destruct (text_head t Ht) as (c & r & Etxt & Hc61 & Hcws & Hcd).
    split; [|split].
    + rewrite (lexa_ws _ _ Hws). rewrite (lex_tok t _ Ht S N). rewrite L. reflexivity.
    + intro Hp. destruct s as [|c0 s0].
      * cbn [app]. rewrite Etxt. cbn. apply Hcd. subst prevw. cbn in Hne. destruct (wordlike t); [discriminate|reflexivity].
      * apply (ws_head (c0 :: s0) _ Hws). discriminate.
    + destruct s as [|c0 s0].
      * cbn [app]. rewrite Etxt. cbn. exact Hc61.
      * apply (ws_head (c0 :: s0) _ Hws). discriminate.
Qed.

Theorem lex_render ts sp tr : forallb tok_ok ts = true -> seps_ok false ts sp = true -> forallb is_ws tr = true -> lex (render ts sp tr) = Some ts.
Proof. intros A B C. exact (proj1 (lex_render_gen ts false sp tr A B C)). Qed.

Lemma flags_all_true ts : forallb tok_ok ts = true -> forall b, flags_ok b ts = true.
Proof.
  induction ts as [|t ts IH]; intros H b; [reflexivity|]. cbn [forallb] in H. apply andb_true_iff in H. destruct H as [Ht H].
  destruct t as [s|s w| | | | |]; cbn [flags_ok]; try (apply IH, H).
  cbn [tok_ok] in Ht. apply andb_true_iff in Ht. destruct Ht as [_ ->]. cbn. apply IH, H.
Qed.

Section Reading.
  Variable idn : list Z -> nat.
  Variable numv : list Z -> Z.
  (* the reading of a rendering is the parse of its tokens: it does not depend on the whitespace *)
  Theorem read_render ts sp tr : forallb tok_ok ts = true -> seps_ok false ts sp = true -> forallb is_ws tr = true ->
    read_value idn numv (render ts sp tr) = parse_value (map (abs_tok idn numv) ts).
  Proof. intros A B C. unfold read_value. rewrite (lex_render ts sp tr A B C), (flags_all_true ts A). reflexivity. Qed.
  Theorem whitespace_invariant ts sp tr sp' tr' : forallb tok_ok ts = true ->
    seps_ok false ts sp = true -> forallb is_ws tr = true -> seps_ok false ts sp' = true -> forallb is_ws tr' = true ->
    read_value idn numv (render ts sp tr) = read_value idn numv (render ts sp' tr').
  Proof. intros A B C B' C'. rewrite !read_render by assumption. reflexivity. Qed.
  (* every definition tree, every spelling of its labels and numbers (each occurrence on its own), every admissible whitespace *)
  Theorem text_roundtrip d cts sp tr : map (abs_tok idn numv) cts = print_defn d -> forallb tok_ok cts = true ->
    seps_ok false cts sp = true -> forallb is_ws tr = true -> read_value idn numv (render cts sp tr) = Some d.
  Proof. intros E A B C. rewrite (read_render cts sp tr A B C), E. apply parse_print. Qed.
End Reading.

(* ------------------------------------------------------------------------------------------------------------------
   Whitespace runs in ANY text (well-formed or not): what a run of whitespace consists of is irrelevant, only that it is
   there.  Lexing a text that is followed by whitespace is lexing it on its own and then the rest (no terminal looks past
   a whitespace character), so a non-empty run of blanks, tabs, newlines can be replaced by any other: this is what makes
   continuation lines (joined by configparser with a newline, each stripped) read like the one-line spelling. *)
Lemma span_split p l : forall a b, span p l = (a, b) -> l = a ++ b.
Proof.
  induction l as [|c l IH]; intros a b H; cbn [span] in H.
  - injection H as <- <-. reflexivity.
  - destruct (p c).
    + destruct (span p l) as [x y]. injection H as <- <-. cbn [app]. f_equal. apply IH. reflexivity.
    + injection H as <- <-. reflexivity.
Qed.
Lemma digits1_split l x y : digits1 l = Some (x, y) -> l = x ++ y /\ x <> [].
Proof.
  unfold digits1. destruct (span is_digit l) as [[|d ds] r] eqn:E; [discriminate|]. intro H. injection H as <- <-.
  split; [apply (span_split _ _ _ _ E)|discriminate].
Qed.
Lemma exponent_split l x y : exponent l = Some (x, y) -> l = x ++ y.
Proof.
  destruct l as [|c r]; [discriminate|]. cbn [exponent]. destruct (is_e c); [|discriminate]. destruct r as [|s r']; [discriminate|].
  destruct (is_sign s).
  - destruct (digits1 r') as [[ds r2]|] eqn:E; [|discriminate]. intro H. injection H as <- <-. cbn [app]. do 2 f_equal. apply (digits1_split _ _ _ E).
  - destruct (digits1 (s :: r')) as [[ds r2]|] eqn:E; [|discriminate]. intro H. injection H as <- <-. cbn [app]. f_equal. apply (digits1_split _ _ _ E).
Qed.
Lemma with_exponent_split pre r x y : with_exponent pre r = (x, y) -> pre ++ r = x ++ y.
Proof.
  unfold with_exponent. destruct (exponent r) as [[ex r']|] eqn:E; intro H; injection H as <- <-; [|reflexivity].
  rewrite <- app_assoc. f_equal. apply (exponent_split _ _ _ E).
Qed.
Lemma unsigned_number_split l x y : unsigned_number l = Some (x, y) -> l = x ++ y /\ x <> [].
Proof.
  unfold unsigned_number. destruct (span is_digit l) as [ds r] eqn:E. pose proof (span_split _ _ _ _ E) as Hl. destruct ds as [|d0 ds].
  - destruct r as [|d r1]; [discriminate|]. destruct (is_dot d); [|discriminate]. destruct (digits1 r1) as [[fs r2]|] eqn:E1; [|discriminate].
    intro H. injection H as H. pose proof (with_exponent_split _ _ _ _ H) as H'. destruct (digits1_split _ _ _ E1) as [H1 _].
    split.
    + rewrite Hl. cbn [app]. rewrite H1. rewrite <- H'. reflexivity.
    + intro Hx. subst x. unfold with_exponent in H. destruct (exponent r2) as [[ex r3]|]; discriminate.
  - destruct (exponent r) as [[ex r1]|] eqn:E1.
    + intro H. injection H as <- <-. split; [|discriminate]. rewrite Hl, (exponent_split _ _ _ E1). cbn [app]. rewrite ?app_assoc. reflexivity.
    + destruct r as [|d r1].
      * intro H. injection H as <- <-. split; [exact Hl|discriminate].
      * destruct (is_dot d).
        -- destruct (span is_digit r1) as [fs r2] eqn:E2. intro H. injection H as H. pose proof (with_exponent_split _ _ _ _ H) as H'.
           split.
           ++ rewrite Hl, (span_split _ _ _ _ E2), <- H'. cbn [app]. rewrite <- ?app_assoc. cbn [app]. reflexivity.
           ++ intro Hx. subst x. unfold with_exponent in H. destruct (exponent r2) as [[ex r3]|]; discriminate.
        -- intro H. injection H as <- <-. split; [exact Hl|discriminate].
Qed.
Lemma number_split l x y : number l = Some (x, y) -> l = x ++ y /\ x <> [].
Proof.
  destruct l as [|c r]; [discriminate|]. cbn [number]. destruct (is_sign c).
  - destruct (unsigned_number r) as [[s r']|] eqn:E; [|discriminate]. intro H. injection H as <- <-. split; [|discriminate].
    cbn [app]. f_equal. apply (unsigned_number_split _ _ _ E).
  - apply unsigned_number_split.
Qed.
Lemma id_body_len_n n : forall l x y, (length l <= n)%nat -> id_body l = (x, y) -> (length x <= length l)%nat.
Proof.
  induction n as [|n IH]; intros l x y Hl H.
  - destruct l; [|cbn in Hl; lia]. injection H as <- <-. apply le_n.
  - destruct l as [|c r]; [injection H as <- <-; apply le_n|]. cbn [id_body] in H. cbn [length] in Hl |- *. destruct (is_idbody c).
    + destruct (id_body r) as [s r'] eqn:E. injection H as <- <-. cbn [length]. pose proof (IH r s r' ltac:(lia) E). lia.
    + destruct (is_dot c); [|injection H as <- <-; cbn; lia]. destruct r as [|d r2]; [injection H as <- <-; cbn; lia|].
      destruct (is_idstart d); [|injection H as <- <-; cbn; lia]. destruct (id_body r2) as [s r'] eqn:E. injection H as <- <-.
      cbn [length] in Hl |- *. pose proof (IH r2 s r' ltac:(lia) E). lia.
Qed.

Definition starts_ws (rest : list Z) : Prop := match rest with [] => True | c :: _ => is_ws c = true end.
Lemma starts_ws_safe rest : starts_ws rest -> safe rest.
Proof. destruct rest as [|c r]; [exact (fun H => H)|]. cbn. apply ws_delim. Qed.
Lemma starts_ws_noeq rest : starts_ws rest -> noeq rest.
Proof. destruct rest as [|c r]; [exact (fun H => H)|]. cbn. unfold is_ws. lia. Qed.

(* the token at the head of a non-empty text is the same when whitespace (or nothing) follows the text, and lies inside it *)
Lemma scan_app c r rest : starts_ws rest -> scan ((c :: r) ++ rest) = scan (c :: r).
Proof.
  intro Hs. pose proof (starts_ws_safe _ Hs) as H. cbn [app]. unfold scan.
  destruct (c =? 40); [reflexivity|]. destruct (c =? 41); [reflexivity|]. destruct (c =? 44); [reflexivity|]. destruct (c =? 62).
  - destruct r as [|d r']; cbn [app]; [|reflexivity]. destruct rest as [|e r2]; [reflexivity|]. cbn in Hs.
    assert (E : (e =? 61) = false) by (revert Hs; unfold is_ws; lia). rewrite E. reflexivity.
  - destruct (is_idstart c).
    + rewrite (id_body_app_n (length r) r rest (le_n _) H). destruct (id_body r) as [s r']. reflexivity.
    + change (c :: r ++ rest) with ((c :: r) ++ rest). rewrite (number_app _ _ H). destruct (number (c :: r)) as [[s r']|]; [|reflexivity].
      cbn [ext]. assert (Ew : wordend (r' ++ rest) = wordend r'); [|rewrite Ew; reflexivity].
      destruct r' as [|d r2]; [|reflexivity]. cbn [app].
      destruct rest as [|e r3]; [reflexivity|]. cbn in H. cbn [wordend]. rewrite (proj2 (proj2 (proj2 (proj2 (proj2 (proj2 (delim_not e H))))))). reflexivity.
Qed.
Lemma scan_len l t n : scan l = Some (t, n) -> (1 <= n <= length l)%nat.
Proof.
  destruct l as [|c r]; [discriminate|]. unfold scan. cbn [length].
  destruct (c =? 40); [intro H; injection H as <- <-; lia|]. destruct (c =? 41); [intro H; injection H as <- <-; lia|].
  destruct (c =? 44); [intro H; injection H as <- <-; lia|]. destruct (c =? 62).
  - destruct r as [|d r']; [intro H; injection H as <- <-; cbn; lia|]. destruct (d =? 61); intro H; injection H as <- <-; cbn [length]; lia.
  - destruct (is_idstart c).
    + destruct (id_body r) as [s r'] eqn:E. intro H. injection H as <- <-. pose proof (id_body_len_n (length r) r s r' (le_n _) E). lia.
    + destruct (number (c :: r)) as [[s r']|] eqn:E; [|discriminate]. intro H. injection H as <- <-.
      destruct (number_split _ _ _ E) as [Hl Hne]. assert (length (c :: r) = length (s ++ r')) by (rewrite Hl; reflexivity).
      rewrite app_length in H. cbn [length] in H. destruct s; [contradiction|]. cbn [length] in *. lia.
Qed.

Definition seq_lex (o : option (list ctok)) (k : option (list ctok)) : option (list ctok) :=
  match o, k with Some a, Some b => Some (a ++ b) | _, _ => None end.
Lemma lexa_split a : forall k rest, (k <= length a)%nat -> starts_ws rest -> lexa k (a ++ rest) = seq_lex (lexa k a) (lexa 0 rest).
Proof.
  induction a as [|c r IH]; intros k rest Hk Hs.
  - cbn [length] in Hk. assert (k = 0%nat) by lia. subst k. cbn [app]. change (lexa 0 []) with (@Some (list ctok) []).
    unfold seq_lex. destruct (lexa 0 rest); reflexivity.
  - destruct k as [|k'].
    + cbn [app lexa]. destruct (is_ws c); [apply IH; [lia|exact Hs]|].
      change (c :: r ++ rest) with ((c :: r) ++ rest). rewrite (scan_app c r rest Hs). destruct (scan (c :: r)) as [[t n]|] eqn:E; [|reflexivity].
      pose proof (scan_len _ _ _ E) as Hn. cbn [length] in Hn. rewrite (IH (pred n) rest ltac:(lia) Hs).
      destruct (lexa (pred n) r) as [ts|]; [|reflexivity]. cbn [seq_lex]. destruct (lexa 0 rest); reflexivity.
    + cbn [app lexa]. cbn [length] in Hk. apply IH; [lia|exact Hs].
Qed.

Theorem lex_ws_run a w1 w2 b : forallb is_ws w1 = true -> forallb is_ws w2 = true -> w1 <> [] -> w2 <> [] ->
  lex (a ++ w1 ++ b) = lex (a ++ w2 ++ b).
Proof.
  intros H1 H2 N1 N2. unfold lex.
  assert (S1 : starts_ws (w1 ++ b)) by (destruct w1 as [|c w]; [contradiction|]; cbn in *; apply andb_true_iff in H1; tauto).
  assert (S2 : starts_ws (w2 ++ b)) by (destruct w2 as [|c w]; [contradiction|]; cbn in *; apply andb_true_iff in H2; tauto).
  rewrite (lexa_split a 0 _ (Nat.le_0_l _) S1), (lexa_split a 0 _ (Nat.le_0_l _) S2), (lexa_ws _ _ H1), (lexa_ws _ _ H2). reflexivity.
Qed.
Theorem lex_ws_ends w1 a w2 : forallb is_ws w1 = true -> forallb is_ws w2 = true -> lex (w1 ++ a ++ w2) = lex a.
Proof.
  intros H1 H2. unfold lex. rewrite (lexa_ws _ _ H1).
  assert (S2 : starts_ws w2) by (destruct w2 as [|c w]; [exact I|]; cbn in *; apply andb_true_iff in H2; tauto).
  rewrite (lexa_split a 0 _ (Nat.le_0_l _) S2), (lexa_ws_only _ H2). destruct (lexa 0 a) as [ts|]; [|reflexivity]. cbn. rewrite app_nil_r. reflexivity.
Qed.

(* a definition written over several lines: configparser hands over the stripped lines joined by a newline; with any
   other non-empty whitespace between the pieces (a blank, as on one line) the text lexes, hence reads, the same *)
Fixpoint join (sep : list Z) (ps : list (list Z)) : list Z :=
  match ps with [] => [] | p :: r => match r with [] => p | _ => p ++ sep ++ join sep r end end.
Theorem join_sep_irrelevant ps w1 w2 : forallb is_ws w1 = true -> forallb is_ws w2 = true -> w1 <> [] -> w2 <> [] ->
  lex (join w1 ps) = lex (join w2 ps).
Proof.
  intros H1 H2 N1 N2. unfold lex. induction ps as [|p r IH]; [reflexivity|]. cbn [join]. destruct r as [|q r']; [reflexivity|].
  assert (S1 : starts_ws (w1 ++ join w1 (q :: r'))) by (destruct w1 as [|c w]; [contradiction|]; cbn in *; apply andb_true_iff in H1; tauto).
  assert (S2 : starts_ws (w2 ++ join w2 (q :: r'))) by (destruct w2 as [|c w]; [contradiction|]; cbn in *; apply andb_true_iff in H2; tauto).
  rewrite (lexa_split p 0 _ (Nat.le_0_l _) S1), (lexa_split p 0 _ (Nat.le_0_l _) S2), (lexa_ws _ _ H1), (lexa_ws _ _ H2), IH. reflexivity.
Qed.
Section Reading2.
  Variable idn : list Z -> nat.
  Variable numv : list Z -> Z.
  Lemma read_value_lex t1 t2 : lex t1 = lex t2 -> read_value idn numv t1 = read_value idn numv t2.
  Proof. unfold read_value. intros ->. reflexivity. Qed.
  Theorem read_ws_run a w1 w2 b : forallb is_ws w1 = true -> forallb is_ws w2 = true -> w1 <> [] -> w2 <> [] ->
    read_value idn numv (a ++ w1 ++ b) = read_value idn numv (a ++ w2 ++ b).
  Proof. intros. apply read_value_lex, lex_ws_run; assumption. Qed.
  Theorem read_ws_ends w1 a w2 : forallb is_ws w1 = true -> forallb is_ws w2 = true -> read_value idn numv (w1 ++ a ++ w2) = read_value idn numv a.
  Proof. intros. apply read_value_lex, lex_ws_ends; assumption. Qed.
  Theorem read_lines ps w : forallb is_ws w = true -> w <> [] -> read_value idn numv (join [10] ps) = read_value idn numv (join w ps).
  Proof. intros Hw Nw. apply read_value_lex, join_sep_irrelevant; [reflexivity|exact Hw|discriminate|exact Nw]. Qed.
End Reading2.
