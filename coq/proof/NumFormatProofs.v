(* What the printed numbers mean (model/NumFormat.v): the text of a number reads back as the value rounded to the printed
   precision - fixed notation: within half a unit of the last printed decimal; scientific notation: a mantissa of exactly
   p+1 digits, the first non-zero, within half a unit of its last digit. *)
From Coq Require Import ZArith List Bool Lia ZifyBool.
From V Require Import model.NumFormat.
Import ListNotations.
Local Open Scope Z_scope.

(* ---- rounding *)
Lemma rhe_close num den : 0 < den -> Z.abs (2 * rhe num den * den - 2 * num) <= den.
Proof.
  intro Hd. unfold rhe. pose proof (Z.div_mod num den ltac:(lia)) as E. pose proof (Z.mod_pos_bound num den Hd) as B.
  set (q := num / den) in *. set (r := num mod den) in *.
  destruct (2 * r <? den) eqn:C1; [nia|]. destruct (den <? 2 * r) eqn:C2; [nia|]. destruct (Z.even q); nia.
Qed.
Lemma rhe_one x : rhe x 1 = x.
Proof. unfold rhe. rewrite Z.div_1_r, Z.mod_1_r. reflexivity. Qed.
Lemma rhe_bounds num den lo hi : 0 < den -> lo * den <= num -> num <= hi * den -> lo <= rhe num den <= hi.
Proof.
  intros Hd Hlo Hhi. unfold rhe. pose proof (Z.div_mod num den ltac:(lia)) as E. pose proof (Z.mod_pos_bound num den Hd) as B.
  set (q := num / den) in *. set (r := num mod den) in *.
  assert (lo <= q) by nia. assert (q <= hi) by nia. assert (r = 0 \/ q + 1 <= hi) by nia.
  destruct (2 * r <? den) eqn:C1; [lia|]. destruct (den <? 2 * r) eqn:C2; [lia|]. destruct (Z.even q); lia.
Qed.
Lemma rhe_mono a b den : 0 < den -> a <= b -> rhe a den <= rhe b den.
Proof.
  intros Hd Hab. unfold rhe.
  pose proof (Z.div_mod a den ltac:(lia)) as Ea. pose proof (Z.mod_pos_bound a den Hd) as Ba.
  pose proof (Z.div_mod b den ltac:(lia)) as Eb. pose proof (Z.mod_pos_bound b den Hd) as Bb.
  set (qa := a / den) in *. set (ra := a mod den) in *. set (qb := b / den) in *. set (rb := b mod den) in *.
  assert (qa <= qb) by nia. assert (qa = qb -> ra <= rb) by nia.
  destruct (2 * ra <? den) eqn:A1; destruct (2 * rb <? den) eqn:B1; try lia;
  destruct (den <? 2 * ra) eqn:A2; destruct (den <? 2 * rb) eqn:B2; try lia;
  destruct (Z.even qa) eqn:EA; destruct (Z.even qb) eqn:EB; try lia;
  assert (qa = qb -> False) by (intro; subst qb; congruence); lia.
Qed.

(* ---- digits *)
Lemma pow10_pos k : 0 <= k -> 0 < 10 ^ k.
Proof. intro. apply Z.pow_pos_nonneg; lia. Qed.
Lemma digits_w_acc w : forall n acc, digits_w w n acc = digits_w w n [] ++ acc.
Proof.
  induction w as [|k IH]; intros n acc; [reflexivity|]. cbn [digits_w]. rewrite (IH _ (_ :: acc)), (IH _ [_]), <- app_assoc. reflexivity.
Qed.
Lemma digit_char d : 0 <= d < 10 -> is_digit (48 + d) = true /\ 48 + d - 48 = d.
Proof. intro. unfold is_digit. lia. Qed.
Lemma read_digits_w w : forall n rest a c, 0 <= n ->
  read_digits (digits_w w n [] ++ rest) a c = read_digits rest (a * 10 ^ Z.of_nat w + n mod 10 ^ Z.of_nat w) (w + c)%nat.
Proof.
  induction w as [|k IH]; intros n rest a c Hn.
  - cbn [digits_w app Z.of_nat]. rewrite Z.pow_0_r, Z.mod_1_r. f_equal. lia.
  - cbn [digits_w]. rewrite digits_w_acc, <- app_assoc. cbn [app]. rewrite IH by (apply Z.div_pos; lia).
    destruct (digit_char (n mod 10) ltac:(apply Z.mod_pos_bound; lia)) as [D1 D2].
    cbn [read_digits]. rewrite D1, D2. f_equal; try lia.
    rewrite Nat2Z.inj_succ, Z.pow_succ_r by lia. pose proof (pow10_pos (Z.of_nat k) ltac:(lia)) as P.
    rewrite (Z.rem_mul_r n 10 (10 ^ Z.of_nat k)) by lia. lia.
Qed.
Lemma digits_w_length w : forall n, length (digits_w w n []) = w.
Proof. induction w as [|k IH]; intro n; [reflexivity|]. cbn [digits_w]. rewrite digits_w_acc, app_length, IH. cbn. lia. Qed.

Lemma digits_f_acc f : forall n acc, digits_f f n acc = digits_f f n [] ++ acc.
Proof.
  induction f as [|k IH]; intros n acc; cbn [digits_f]; [reflexivity|]. destruct (n <? 10); [reflexivity|].
  rewrite (IH _ (_ :: acc)), (IH _ [_]), <- app_assoc. reflexivity.
Qed.
(* with enough fuel: the digits read back as n; there are k >= 1 of them, 10^(k-1) <= n < 10^k unless n = 0; the first is a digit *)
Lemma digits_f_spec f : forall n, 0 <= n < 10 ^ (Z.of_nat f + 1) ->
  exists c r, digits_f f n [] = c :: r /\ is_digit c = true /\ (c = 48 -> n = 0) /\
    (forall rest c0, read_digits (digits_f f n [] ++ rest) 0 c0 = read_digits rest n (S (length r) + c0)%nat) /\
    (1 <= n -> 10 ^ Z.of_nat (length r) <= n) /\ n < 10 ^ (Z.of_nat (length r) + 1).
Proof.
  induction f as [|k IH]; intros n Hn.
  - cbn [Z.of_nat] in Hn. change (10 ^ (0 + 1)) with 10 in Hn. cbn [digits_f]. rewrite Z.mod_small by lia.
    destruct (digit_char n ltac:(lia)) as [D1 D2]. exists (48 + n), []. repeat split; try assumption; try lia; try (cbn; lia).
    intros rest c0. cbn [app read_digits]. rewrite D1, D2. f_equal.
  - cbn [digits_f]. destruct (n <? 10) eqn:C.
    + destruct (digit_char n ltac:(lia)) as [D1 D2]. exists (48 + n), []. repeat split; try assumption; try lia; try (cbn; lia).
      intros rest c0. cbn [app read_digits]. rewrite D1, D2. f_equal.
    + rewrite Nat2Z.inj_succ in Hn. replace (Z.succ (Z.of_nat k) + 1) with (Z.succ (Z.of_nat k + 1)) in Hn by lia.
      rewrite Z.pow_succ_r in Hn by lia.
      destruct (IH (n / 10)) as (c & r & E & Dc & Hz & Hr & Hlo & Hhi).
      { split; [apply Z.div_pos; lia|]. apply Z.div_lt_upper_bound; lia. }
      rewrite digits_f_acc, E. exists c, (r ++ [48 + n mod 10]). rewrite app_length. cbn [length].
      destruct (digit_char (n mod 10) ltac:(apply Z.mod_pos_bound; lia)) as [D1 D2].
      pose proof (Z.div_mod n 10 ltac:(lia)) as Edm. pose proof (Z.mod_pos_bound n 10 ltac:(lia)) as Bm.
      assert (1 <= n / 10) by (apply Z.div_le_lower_bound; lia).
      split; [reflexivity|]. split; [exact Dc|]. split; [intro Hc; specialize (Hz Hc); lia|]. split; [|split].
      * intros rest c0. rewrite <- E, <- app_assoc, Hr. cbn [app read_digits]. rewrite D1, D2. f_equal; try lia.
      * intros _. replace (Z.of_nat (length r + 1)) with (Z.succ (Z.of_nat (length r))) by lia. rewrite Z.pow_succ_r by lia.
        specialize (Hlo ltac:(lia)). lia.
      * replace (Z.of_nat (length r + 1) + 1) with (Z.succ (Z.of_nat (length r) + 1)) by lia. rewrite Z.pow_succ_r by lia. lia.
Qed.
Lemma fuel_enough n : 0 <= n -> n < 10 ^ (Z.of_nat (Z.to_nat (Z.log2 n)) + 1).
Proof.
  intro Hn. destruct (Z.eq_dec n 0) as [->|Hz]; [reflexivity|].
  rewrite Z2Nat.id by apply Z.log2_nonneg. pose proof (Z.log2_spec n ltac:(lia)) as [_ H].
  replace (Z.succ (Z.log2 n)) with (Z.log2 n + 1) in H by lia.
  eapply Z.lt_le_trans; [exact H|]. apply Z.pow_le_mono_l. lia.
Qed.
Lemma digits_spec n : 0 <= n ->
  exists c r, digits n = c :: r /\ is_digit c = true /\ (c = 48 -> n = 0) /\
    (forall rest c0, read_digits (digits n ++ rest) 0 c0 = read_digits rest n (S (length r) + c0)%nat) /\
    (1 <= n -> 10 ^ Z.of_nat (length r) <= n) /\ n < 10 ^ (Z.of_nat (length r) + 1).
Proof. intro Hn. unfold digits. apply digits_f_spec. split; [exact Hn|apply fuel_enough; exact Hn]. Qed.
Lemma ndigits_spec n : 1 <= n -> 1 <= ndigits n /\ 10 ^ (ndigits n - 1) <= n < 10 ^ ndigits n.
Proof.
  intro Hn. destruct (digits_spec n ltac:(lia)) as (c & r & E & _ & _ & _ & Hlo & Hhi). unfold ndigits. rewrite E. cbn [length].
  rewrite Nat2Z.inj_succ. replace (Z.succ (Z.of_nat (length r)) - 1) with (Z.of_nat (length r)) by lia.
  replace (Z.succ (Z.of_nat (length r))) with (Z.of_nat (length r) + 1) by lia. split; [lia|]. split; [apply Hlo; exact Hn|exact Hhi].
Qed.

(* ---- the value as a fraction *)
Lemma frac_spec m e : 0 <= m -> let '(n, q) := frac m e in 0 <= n /\ 0 < q /\ (0 <= e -> n = m * 2 ^ e /\ q = 1) /\ (e < 0 -> n = m /\ q = 2 ^ (- e)).
Proof.
  intro Hm. unfold frac. destruct (0 <=? e) eqn:C.
  - assert (0 < 2 ^ e) by (apply Z.pow_pos_nonneg; lia). repeat split; try lia; nia.
  - assert (0 < 2 ^ (- e)) by (apply Z.pow_pos_nonneg; lia). repeat split; lia.
Qed.

(* ---- fixed notation *)
Lemma fixed_int_nonneg d m e : 0 <= m -> 0 <= fixed_int d m e.
Proof.
  intro Hm. unfold fixed_int. pose proof (frac_spec m e Hm) as F. destruct (frac m e) as [n q]. destruct F as (Hn & Hq & _).
  pose proof (pow10_pos (Z.of_nat d) ltac:(lia)). apply (rhe_bounds (n * 10 ^ Z.of_nat d) q 0 (n * 10 ^ Z.of_nat d)); nia.
Qed.
(* within half a unit of the last printed decimal (and exact when the value is an integer multiple of it) *)
Theorem fixed_close d m e : 0 <= m -> let '(n, q) := frac m e in
  Z.abs (2 * fixed_int d m e * q - 2 * (n * 10 ^ Z.of_nat d)) <= q.
Proof.
  intro Hm. unfold fixed_int. pose proof (frac_spec m e Hm) as F. destruct (frac m e) as [n q]. destruct F as (_ & Hq & _).
  apply rhe_close. exact Hq.
Qed.
Theorem fixed_exact_integers d m e : 0 <= m -> 0 <= e -> fixed_int d m e = m * 2 ^ e * 10 ^ Z.of_nat d.
Proof. intros Hm He. unfold fixed_int, frac. destruct (0 <=? e) eqn:C; [|lia]. apply rhe_one. Qed.
(* a larger value never prints as a smaller number (same exponent) *)
Theorem fixed_monotone d m1 m2 e : 0 <= m1 <= m2 -> fixed_int d m1 e <= fixed_int d m2 e.
Proof.
  intros H. unfold fixed_int, frac. pose proof (pow10_pos (Z.of_nat d) ltac:(lia)).
  destruct (0 <=? e) eqn:C.
  - assert (0 < 2 ^ e) by (apply Z.pow_pos_nonneg; lia). apply rhe_mono; [lia|]. apply Z.mul_le_mono_nonneg_r; [lia|]. apply Z.mul_le_mono_nonneg_r; lia.
  - assert (0 < 2 ^ (- e)) by (apply Z.pow_pos_nonneg; lia). apply rhe_mono; [lia|]. apply Z.mul_le_mono_nonneg_r; lia.
Qed.

Lemma skip_sp_digit c r : is_digit c = true -> skip_sp (c :: r) = c :: r.
Proof. unfold is_digit. intro H. cbn [skip_sp]. destruct (c =? 32) eqn:E; [lia|reflexivity]. Qed.
Lemma read_sign_digit c r : is_digit c = true -> read_sign (c :: r) = (false, c :: r).
Proof. unfold is_digit. intro H. cbn [read_sign]. destruct (c =? 45) eqn:E; [lia|reflexivity]. Qed.

(* the text reads back as: the sign, the rounded value as an integer of all printed digits, d digits after the point *)
Theorem fixed_reads d neg m e : 0 <= m ->
  read_number (fixed (S d) neg m e) = Some (mkp neg (fixed_int (S d) m e) (S d) 0).
Proof.
  intro Hm. unfold fixed. set (N := fixed_int (S d) m e). pose proof (fixed_int_nonneg (S d) m e Hm) as HN. fold N in HN.
  set (P := 10 ^ Z.of_nat (S d)). assert (HP : 0 < P) by (apply pow10_pos; lia).
  assert (Hip : 0 <= N / P) by (apply Z.div_pos; lia).
  destruct (digits_spec (N / P) Hip) as (c & r & E & Dc & _ & Hr & _).
  set (tail := 46 :: digits_w (S d) (N mod P) []).
  assert (Hbody : forall t1, t1 = digits (N / P) ++ tail ->
    (let '(ip, ni, t2) := read_digits t1 0 0 in
     match ni with O => None | S _ => let '(all, nf, t3) := read_frac ip t2 in match read_exp t3 with Some x => Some (mkp neg all nf x) | None => None end end)
    = Some (mkp neg N (S d) 0)).
  { intros t1 ->. rewrite Hr. cbn [Nat.add]. unfold tail. cbn [read_digits]. change (is_digit 46) with false. cbv iota.
    unfold read_frac. change (46 =? 46) with true. cbv iota.
    rewrite <- (app_nil_r (digits_w (S d) (N mod P) [])), read_digits_w by (apply Z.mod_pos_bound; lia).
    fold P. cbn [read_digits]. rewrite Z.mod_mod by lia. unfold read_exp.
    replace (N / P * P + N mod P) with N by (pose proof (Z.div_mod N P ltac:(lia)); lia).
    replace (S d + 0)%nat with (S d) by lia. reflexivity. }
  unfold read_number. destruct neg.
  - cbn [app skip_sp]. change (45 =? 32) with false. cbv iota. cbn [read_sign]. change (45 =? 45) with true. cbv iota.
    apply Hbody. reflexivity.
  - cbn [app]. rewrite E. cbn [app]. rewrite (skip_sp_digit c _ Dc), (read_sign_digit c _ Dc). apply Hbody. rewrite E. reflexivity.
Qed.

(* ---- scientific notation *)
(* the decimal exponent: 10^x <= n/q < 10^(x+1) *)
Lemma dexp_spec n q : 0 < n -> 0 < q -> let x := dexp n q in
  (0 <= x -> 10 ^ x * q <= n < 10 ^ (x + 1) * q) /\ (x < 0 -> q <= n * 10 ^ (- x) /\ n * 10 ^ (- x - 1) < q).
Proof.
  intros Hn Hq. unfold dexp. destruct (q <=? n) eqn:C.
  - assert (H1 : 1 <= n / q) by (apply Z.div_le_lower_bound; lia).
    destruct (ndigits_spec (n / q) H1) as (Hk & Hlo & Hhi). set (k := ndigits (n / q)) in *. cbv zeta. split; [|lia]. intros _.
    replace (k - 1 + 1) with k by lia. pose proof (Z.div_mod n q ltac:(lia)). pose proof (Z.mod_pos_bound n q Hq). nia.
  - set (c := (q + n - 1) / n). assert (Hc : 2 <= c) by (apply Z.div_le_lower_bound; lia).
    destruct (ndigits_spec (c - 1) ltac:(lia)) as (Hk & Hlo & Hhi). set (k := ndigits (c - 1)) in *. cbv zeta. split; [lia|]. intros _.
    replace (- - k) with k by lia. replace (- - k - 1) with (k - 1) by lia.
    pose proof (Z.div_mod (q + n - 1) n ltac:(lia)) as E. pose proof (Z.mod_pos_bound (q + n - 1) n Hn) as B. fold c in E.
    split; nia.
Qed.

(* for a non-zero value: the mantissa has exactly p+1 digits with a non-zero first digit, and mantissa * 10^(x - p) is the value
   rounded at that digit: there is a scale s (p minus the exponent before a carry) such that M0, the value times 10^s rounded
   to an integer, is the mantissa - or M0 = 10^(p+1) carried into (10^p, exponent + 1), the same number *)
Theorem sci_parts_spec p m e : 0 < m -> let '(n, q) := frac m e in let '(M, x) := sci_parts p m e in
  10 ^ Z.of_nat p <= M < 10 ^ (Z.of_nat p + 1) /\
  exists s M0, ((M, x) = (M0, Z.of_nat p - s) \/ (M0 = 10 ^ (Z.of_nat p + 1) /\ M = 10 ^ Z.of_nat p /\ x = Z.of_nat p - s + 1)) /\
    Z.abs (2 * M0 * (q * 10 ^ Z.max 0 (- s)) - 2 * (n * 10 ^ Z.max 0 s)) <= q * 10 ^ Z.max 0 (- s).
Proof.
  intro Hm. unfold sci_parts. destruct (m =? 0) eqn:Z0; [lia|]. pose proof (frac_spec m e ltac:(lia)) as F.
  assert (Hnpos : 0 < fst (frac m e)) by (unfold frac; destruct (0 <=? e) eqn:C; cbn [fst]; [assert (0 < 2 ^ e) by (apply Z.pow_pos_nonneg; lia); nia|lia]).
  destruct (frac m e) as [n q]. cbn [fst] in Hnpos. destruct F as (_ & Hq & _).
  pose proof (dexp_spec n q Hnpos Hq) as D. cbv zeta in D. set (x := dexp n q) in *. set (P := Z.of_nat p). assert (HP : 0 <= P) by lia.
  set (s := P - x).
  set (M0 := if 0 <=? s then rhe (n * 10 ^ s) q else rhe n (q * 10 ^ (- s))).
  assert (Hp10 : 0 < 10 ^ P) by (apply pow10_pos; lia).
  assert (Hp11 : 10 ^ (P + 1) = 10 * 10 ^ P) by (rewrite Z.pow_add_r by lia; lia).
  (* the rounded mantissa lies in [10^p, 10^(p+1)] and is close *)
  assert (HM0 : 10 ^ P <= M0 <= 10 ^ (P + 1) /\
                Z.abs (2 * M0 * (q * 10 ^ Z.max 0 (- s)) - 2 * (n * 10 ^ Z.max 0 s)) <= q * 10 ^ Z.max 0 (- s)).
  { unfold M0. destruct (0 <=? s) eqn:Cs.
    - replace (Z.max 0 (- s)) with 0 by lia. replace (Z.max 0 s) with s by lia. rewrite Z.pow_0_r, Z.mul_1_r. split; [|apply rhe_close; exact Hq].
      assert (Hs10 : 0 < 10 ^ s) by (apply pow10_pos; lia).
      apply rhe_bounds; [exact Hq| |].
      + destruct (Z_le_gt_dec 0 x) as [Hx|Hx].
        * destruct D as [D _]. specialize (D Hx). replace P with (x + s) by (unfold s; lia). rewrite Z.pow_add_r by lia. nia.
        * destruct D as [_ D]. specialize (D ltac:(lia)). replace s with (P + - x) by (unfold s; lia). rewrite Z.pow_add_r by lia.
          assert (0 < 10 ^ (- x)) by (apply pow10_pos; lia). nia.
      + destruct (Z_le_gt_dec 0 x) as [Hx|Hx].
        * destruct D as [D _]. specialize (D Hx). replace (P + 1) with (x + 1 + s) by (unfold s; lia). rewrite Z.pow_add_r by lia. nia.
        * destruct D as [_ D]. specialize (D ltac:(lia)). replace s with (P + 1 + (- x - 1)) by (unfold s; lia). rewrite (Z.pow_add_r 10 (P + 1)) by lia.
          assert (0 < 10 ^ (- x - 1)) by (apply pow10_pos; lia). assert (0 < 10 ^ (P + 1)) by (apply pow10_pos; lia). nia.
    - replace (Z.max 0 (- s)) with (- s) by lia. replace (Z.max 0 s) with 0 by lia. rewrite Z.pow_0_r, Z.mul_1_r.
      assert (Hs10 : 0 < 10 ^ (- s)) by (apply pow10_pos; lia). split; [|apply rhe_close; nia].
      destruct D as [D _]. specialize (D ltac:(unfold s in Cs; lia)).
      apply rhe_bounds; [nia| |].
      + replace x with (P + - s) in D by (unfold s; lia). rewrite Z.pow_add_r in D by lia. nia.
      + replace (x + 1) with (P + 1 + - s) in D by (unfold s; lia). rewrite (Z.pow_add_r 10 (P + 1)) in D by lia. nia. }
  destruct HM0 as [HB HC]. fold P. fold s. fold M0.
  destruct (M0 =? 10 ^ (P + 1)) eqn:Cc.
  - split; [lia|]. exists s, M0. split; [right; repeat split; [lia|unfold s; lia]|exact HC].
  - split; [lia|]. exists s, M0. split; [left; f_equal; unfold s; lia|exact HC].
Qed.
(* zero prints as 0.00...e+00 *)
Theorem sci_parts_zero p e : sci_parts p 0 e = (0, 0).
Proof. reflexivity. Qed.

(* the exponent text ("e", sign, at least two digits) reads back *)
Lemma read_exp_text x : read_exp (101 :: exp_text x) = Some x.
Proof.
  unfold exp_text. set (a := Z.abs x). assert (Ha : 0 <= a) by (unfold a; lia).
  destruct (digits_spec a Ha) as (c & r & E & _ & _ & Hr & _).
  assert (R1 : read_digits (digits a) 0 0 = (a, S (length r), [])).
  { rewrite <- (app_nil_r (digits a)), Hr. cbn [read_digits]. f_equal. f_equal. lia. }
  assert (R2 : read_digits (48 :: digits a) 0 0 = (a, S (S (length r)), [])).
  { cbn [read_digits]. change (is_digit 48) with true. cbv iota. rewrite <- (app_nil_r (digits a)), Hr. cbn [read_digits]. f_equal. f_equal. lia. }
  unfold read_exp. change (101 =? 101) with true. cbv iota.
  destruct (x <? 0) eqn:Cx; destruct (a <? 10) eqn:Ca; rewrite ?R1, ?R2;
  [change (45 =? 45) with true|change (45 =? 45) with true|change (43 =? 45) with false; change (43 =? 43) with true|change (43 =? 45) with false; change (43 =? 43) with true];
  cbv iota; f_equal; unfold a; lia.
Qed.
Theorem sci_reads p space neg m e : 0 <= m -> let '(M, x) := sci_parts (S p) m e in
  read_number (sci (S p) space neg m e) = Some (mkp neg M (S p) x).
Proof.
  intro Hm. unfold sci.
  assert (HB : let '(M, x) := sci_parts (S p) m e in 0 <= M < 10 ^ (Z.of_nat (S p) + 1)).
  { destruct (Z.eq_dec m 0) as [->|Hz].
    - rewrite sci_parts_zero. split; [lia|]. apply pow10_pos. lia.
    - pose proof (sci_parts_spec (S p) m e ltac:(lia)) as S0. destruct (frac m e) as [n q]. destruct (sci_parts (S p) m e) as [M x].
      destruct S0 as [[S1 S2] _]. pose proof (pow10_pos (Z.of_nat (S p)) ltac:(lia)). lia. }
  destruct (sci_parts (S p) m e) as [M x]. set (P := 10 ^ Z.of_nat (S p)) in *. assert (HP : 0 < P) by (apply pow10_pos; lia).
  replace (10 ^ (Z.of_nat (S p) + 1)) with (10 * P) in HB by (unfold P; rewrite Z.pow_add_r by lia; lia).
  set (d0 := M / P). assert (Hd0 : 0 <= d0 < 10) by (unfold d0; split; [apply Z.div_pos; lia|apply Z.div_lt_upper_bound; lia]).
  destruct (digit_char d0 Hd0) as [D1 D2].
  set (tail := 46 :: digits_w (S p) (M mod P) [] ++ 101 :: exp_text x).
  assert (Hbody : (let '(ip, ni, t2) := read_digits ((48 + d0) :: tail) 0 0 in
     match ni with O => None | S _ => let '(all, nf, t3) := read_frac ip t2 in match read_exp t3 with Some x0 => Some (mkp neg all nf x0) | None => None end end)
    = Some (mkp neg M (S p) x)).
  { cbn [read_digits]. rewrite D1, D2. unfold tail. cbn [read_digits]. change (is_digit 46) with false. cbv iota.
    unfold read_frac. change (46 =? 46) with true. cbv iota.
    rewrite read_digits_w by (apply Z.mod_pos_bound; lia). fold P. cbn [read_digits]. change (is_digit 101) with false. cbv iota.
    rewrite read_exp_text, Z.mod_mod by lia.
    replace (0 * 10 + d0) with d0 by lia. replace (d0 * P + M mod P) with M by (unfold d0; pose proof (Z.div_mod M P ltac:(lia)); lia).
    replace (S p + 0)%nat with (S p) by lia. reflexivity. }
  unfold read_number. fold P. fold d0. cbn [app]. fold tail.
  destruct neg; [|destruct space].
  - cbn [app skip_sp]. change (45 =? 32) with false. cbv iota. cbn [read_sign]. change (45 =? 45) with true. cbv iota. exact Hbody.
  - replace (skip_sp ([32] ++ (48 + d0) :: tail)) with (skip_sp ((48 + d0) :: tail)) by reflexivity. rewrite (skip_sp_digit _ _ D1), (read_sign_digit _ _ D1). exact Hbody.
  - cbn [app]. rewrite (skip_sp_digit _ _ D1), (read_sign_digit _ _ D1). exact Hbody.
Qed.

(* ---- padding does not change what is read *)
Lemma skip_sp_repeat k t : skip_sp (repeat 32 k ++ t) = skip_sp t.
Proof. induction k as [|k IH]; [reflexivity|]. cbn [repeat app skip_sp]. change (32 =? 32) with true. exact IH. Qed.
Theorem pad_reads w t : read_number (pad w t) = read_number t.
Proof. unfold read_number, pad. rewrite skip_sp_repeat. reflexivity. Qed.

(* ---- every floating-point format of the writers: the printed cell reads back as the value rounded at the printed digit *)
Definition meaning (sp : bool * nat * bool * nat) (neg : bool) (m e : Z) : printed :=
  let '(issci, d, _, _) := sp in
  if issci then let '(M, x) := sci_parts d m e in mkp neg M d x else mkp neg (fixed_int d m e) d 0.
Theorem fmt_reads issci d space w neg m e : 0 <= m ->
  read_number (fmt_spec (issci, S d, space, w) neg m e) = Some (meaning (issci, S d, space, w) neg m e).
Proof.
  intro Hm. unfold fmt_spec, meaning. rewrite pad_reads. destruct issci.
  - pose proof (sci_reads d space neg m e Hm) as H. destruct (sci_parts (S d) m e) as [M x]. exact H.
  - apply fixed_reads. exact Hm.
Qed.
Theorem float_specs_have_digits : forall code sp, float_spec code = Some sp -> exists issci d space w, sp = (issci, S d, space, w).
Proof.
  intros code sp. unfold float_spec.
  repeat match goal with |- context [if ?c then _ else _] => destruct c end; intro H; inversion H; repeat eexists.
Qed.
Theorem fmt_float_reads code neg m e t : 0 <= m -> fmt_float code neg m e = Some t ->
  exists sp, float_spec code = Some sp /\ read_number t = Some (meaning sp neg m e).
Proof.
  intros Hm. unfold fmt_float. destruct (float_spec code) as [sp|] eqn:E; [|discriminate]. intro H. inversion H; subst t. exists sp. split; [reflexivity|].
  destruct (float_specs_have_digits code sp E) as (issci & d & space & w & ->). apply fmt_reads. exact Hm.
Qed.

(* ---- integers ("%d", "%10d"): the text reads back as the number *)
Theorem int_reads n : read_number (int_text n) = Some (mkp (n <? 0) (Z.abs n) 0 0).
Proof.
  unfold int_text. destruct (n <? 0) eqn:C.
  - destruct (digits_spec (- n) ltac:(lia)) as (c & r & E & Dc & _ & Hr & _).
    unfold read_number. cbn [skip_sp]. change (45 =? 32) with false. cbv iota. cbn [read_sign]. change (45 =? 45) with true. cbv iota.
    rewrite <- (app_nil_r (digits (- n))), Hr. cbn [read_digits Nat.add read_frac read_exp]. f_equal. f_equal. lia.
  - destruct (digits_spec n ltac:(lia)) as (c & r & E & Dc & _ & Hr & _).
    unfold read_number. rewrite E, (skip_sp_digit c r Dc), (read_sign_digit c r Dc), <- E.
    rewrite <- (app_nil_r (digits n)), Hr. cbn [read_digits Nat.add read_frac read_exp]. f_equal. f_equal. lia.
Qed.
Theorem fmt_int_reads code n t : fmt_int code n = Some t -> read_number t = Some (mkp (n <? 0) (Z.abs n) 0 0).
Proof.
  unfold fmt_int. intro H.
  assert (E : t = int_text n \/ t = pad 10 (int_text n)).
  { destruct (code =? 2); [inversion H; auto|]. destruct (code =? 6); [inversion H; auto|discriminate]. }
  destruct E as [-> | ->]; [|rewrite pad_reads]; apply int_reads.
Qed.

(* ---- a printed number contains no blank and no line break: the cells of a row are separated by the writers' blanks alone
        (characters of a cell: digits, sign, point, exponent mark) *)
Definition cell_char (c : Z) : bool := is_digit c || (c =? 45) || (c =? 43) || (c =? 46) || (c =? 101).
Lemma cell_char_not_blank c : cell_char c = true -> c <> 32 /\ c <> 10 /\ c <> 9.
Proof. unfold cell_char, is_digit. lia. Qed.
Lemma digits_w_chars w : forall n acc, Forall (fun c => cell_char c = true) acc -> Forall (fun c => cell_char c = true) (digits_w w n acc).
Proof.
  induction w as [|k IH]; intros n acc H; [exact H|]. cbn [digits_w]. apply IH. constructor; [|exact H].
  pose proof (Z.mod_pos_bound n 10 ltac:(lia)). unfold cell_char, is_digit. lia.
Qed.
Lemma digits_f_chars f : forall n acc, 0 <= n -> Forall (fun c => cell_char c = true) acc -> Forall (fun c => cell_char c = true) (digits_f f n acc).
Proof.
  induction f as [|k IH]; intros n acc Hn H; cbn [digits_f].
  - constructor; [|exact H]. pose proof (Z.mod_pos_bound n 10 ltac:(lia)). unfold cell_char, is_digit. lia.
  - destruct (n <? 10) eqn:C.
    + constructor; [|exact H]. unfold cell_char, is_digit. lia.
    + apply IH; [apply Z.div_pos; lia|]. constructor; [|exact H]. pose proof (Z.mod_pos_bound n 10 ltac:(lia)). unfold cell_char, is_digit. lia.
Qed.
Lemma digits_chars n : 0 <= n -> Forall (fun c => cell_char c = true) (digits n).
Proof. intro H. unfold digits. apply digits_f_chars; [exact H|constructor]. Qed.
Theorem fixed_chars d neg m e : 0 <= m -> Forall (fun c => cell_char c = true) (fixed d neg m e).
Proof.
  intro Hm. unfold fixed. pose proof (fixed_int_nonneg d m e Hm) as HN. set (N := fixed_int d m e) in *.
  assert (0 < 10 ^ Z.of_nat d) by (apply pow10_pos; lia).
  apply Forall_app. split; [destruct neg; repeat constructor|]. apply Forall_app. split; [apply digits_chars; apply Z.div_pos; lia|].
  destruct d; [constructor|]. constructor; [reflexivity|]. apply digits_w_chars. constructor.
Qed.
Theorem int_chars n : Forall (fun c => cell_char c = true) (int_text n).
Proof. unfold int_text. destruct (n <? 0) eqn:C; [constructor; [reflexivity|]|]; apply digits_chars; lia. Qed.
(* padding adds blanks in front only *)
Theorem pad_shape w t : exists k, pad w t = repeat 32 k ++ t.
Proof. unfold pad. eexists. reflexivity. Qed.
