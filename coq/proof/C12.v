(* C12: evaluation is pure -- no dependence on the history of earlier evaluations. *)
From Coq Require Import QArith List Lia Permutation Sorted ZArith.
From V Require Import lib.Common model.Evaluator.
Import ListNotations.

Section Purity.
  Variable N : nat.       (* number of potential forms = number of symbol tables *)

  (* callee k computes the pure value, keeps the number of tables, and leaves the tables of higher-numbered forms alone *)
  Definition Good (k : nat) (c : callee) (d : pure) : Prop :=
    forall vals s, length s = N -> (k < N)%nat ->
      fst (c vals s) = d vals /\ length (snd (c vals s)) = N /\ (forall i, (k < i)%nat -> nth i (snd (c vals s)) [] = nth i s []).
  Definition AllGood (cs : list callee) (ds : list pure) : Prop :=
    length cs = length ds /\ forall k c d, nth_error cs k = Some c -> nth_error ds k = Some d -> Good k c d.

  Lemma set_table_spec j vals (s : state) : (j < length s)%nat ->
    length (set_table j vals s) = length s /\ nth j (set_table j vals s) [] = vals /\
    (forall i, i <> j -> nth i (set_table j vals s) [] = nth i s []).
  Proof.
    intro Hj. unfold set_table. assert (Hf : length (firstn j s) = j) by (rewrite firstn_length; lia).
    repeat split.
    - rewrite app_length. cbn [length]. rewrite Hf, skipn_length. lia.
    - rewrite app_nth2 by lia. rewrite Hf, Nat.sub_diag. reflexivity.
    - intros i Hi. destruct (Nat.lt_ge_cases i j) as [Hlt|Hge].
      + rewrite app_nth1 by lia. rewrite <- (firstn_skipn j s) at 2. rewrite app_nth1 by lia. reflexivity.
      + rewrite app_nth2 by lia. rewrite Hf. destruct (i - j)%nat as [|m] eqn:E; [lia|]. cbn [nth].
        rewrite <- (firstn_skipn (S j) s) at 2. rewrite app_nth2 by (rewrite firstn_length; lia).
        rewrite firstn_length. f_equal. lia.
  Qed.

  Section Eval.
    Variables (cs : list callee) (ds : list pure) (n : nat).
    Hypothesis Hall : AllGood cs ds.
    Hypothesis Hn : length cs = n.
    Hypothesis HnN : (n < N)%nat.

    (* evaluating the expression of form n: the value is the substitution semantics on the CURRENT contents of its own
       table, and no table numbered n or higher changes (in particular its own) *)
    Definition eval_ok (e : expr) : Prop := wf n e -> forall s, length s = N ->
      fst (eval cs n e s) = den ds (nth n s []) e /\ length (snd (eval cs n e s)) = N /\
      (forall i, (n <= i)%nat -> nth i (snd (eval cs n e s)) [] = nth i s []).
    Definition eval_args_ok (es : exprs) : Prop := wf_args n es -> forall s, length s = N ->
      fst (eval_args cs n es s) = den_args ds (nth n s []) es /\ length (snd (eval_args cs n es s)) = N /\
      (forall i, (n <= i)%nat -> nth i (snd (eval_args cs n es s)) [] = nth i s []).

    Scheme expr_mut := Induction for expr Sort Prop with exprs_mut := Induction for exprs Sort Prop.

    Lemma binop_ok (op : Q -> Q -> Q) a b : eval_ok a -> eval_ok b -> wf n a /\ wf n b -> forall s, length s = N ->
      let r := (let '(x, s1) := eval cs n a s in let '(y, s2) := eval cs n b s1 in (op x y, s2)) in
      fst r = op (den ds (nth n s []) a) (den ds (nth n s []) b) /\ length (snd r) = N /\ (forall i, (n <= i)%nat -> nth i (snd r) [] = nth i s []).
    Proof.
      intros IHa IHb [Wa Wb] s Hs. destruct (IHa Wa s Hs) as (Va & La & Fa). destruct (eval cs n a s) as [x s1]. cbn [fst snd] in *.
      destruct (IHb Wb s1 La) as (Vb & Lb & Fb). destruct (eval cs n b s1) as [y s2]. cbn [fst snd] in *.
      split; [|split; [exact Lb|]].
      - rewrite Va, Vb, (Fa n (le_n n)). reflexivity.
      - intros i Hi. rewrite (Fb i Hi). apply Fa, Hi.
    Qed.

    Lemma eval_sound : forall e, eval_ok e.
    Proof.
      apply (expr_mut eval_ok eval_args_ok).
      - intros i _ s Hs. cbn. auto.
      - intros q _ s Hs. cbn. auto.
      - intros a IHa b IHb W s Hs. cbn [eval den]. apply (binop_ok Qplus a b IHa IHb W s Hs).
      - intros a IHa b IHb W s Hs. cbn [eval den]. apply (binop_ok Qminus a b IHa IHb W s Hs).
      - intros a IHa b IHb W s Hs. cbn [eval den]. apply (binop_ok Qmult a b IHa IHb W s Hs).
      - intros f a IHa W s Hs. cbn [eval den]. cbn [wf] in W. destruct (IHa W s Hs) as (Va & La & Fa). destruct (eval cs n a s) as [x s1]. cbn [fst snd] in *.
        split; [rewrite Va; reflexivity|split; assumption].
      - intros f a IHa b IHb W s Hs. cbn [eval den]. apply (binop_ok f a b IHa IHb W s Hs).
      - intros f a IHa b IHb c IHc (Wa & Wb & Wc) s Hs. cbn [eval den].
        destruct (IHa Wa s Hs) as (Va & La & Fa). destruct (eval cs n a s) as [x s1]. cbn [fst snd] in *.
        destruct (IHb Wb s1 La) as (Vb & Lb & Fb). destruct (eval cs n b s1) as [y s2]. cbn [fst snd] in *.
        destruct (IHc Wc s2 Lb) as (Vc & Lc & Fc). destruct (eval cs n c s2) as [z s3]. cbn [fst snd] in *.
        split; [|split; [exact Lc|]].
        + rewrite Va, Vb, Vc, (Fb n (le_n n)), (Fa n (le_n n)). reflexivity.
        + intros i Hi. rewrite (Fc i Hi), (Fb i Hi). apply Fa, Hi.
      - intros j args IH [Wj Wa] s Hs. cbn [eval den].
        destruct (IH Wa s Hs) as (Va & La & Fa). destruct (eval_args cs n args s) as [vals s1]. cbn [fst snd] in *.
        destruct Hall as [Hlen Hg].
        destruct (nth_error cs j) as [c|] eqn:Ec; [|apply nth_error_None in Ec; lia].
        destruct (nth_error ds j) as [d|] eqn:Ed; [|apply nth_error_None in Ed; lia].
        destruct (Hg j c d Ec Ed vals s1 La ltac:(lia)) as (Vc & Lc & Fc).
        split; [rewrite Vc, Va; reflexivity|split; [exact Lc|]].
        intros i Hi. rewrite (Fc i ltac:(lia)). apply Fa, Hi.
      - intros _ s Hs. cbn. auto.
      - intros e IHe es IHes [We Wes] s Hs. cbn [eval_args den_args].
        destruct (IHe We s Hs) as (Va & La & Fa). destruct (eval cs n e s) as [x s1]. cbn [fst snd] in *.
        destruct (IHes Wes s1 La) as (Vb & Lb & Fb). destruct (eval_args cs n es s1) as [xs s2]. cbn [fst snd] in *.
        split; [|split; [exact Lb|]].
        + rewrite Va, Vb, (Fa n (le_n n)). reflexivity.
        + intros i Hi. rewrite (Fb i Hi). apply Fa, Hi.
    Qed.

    (* __call__ of form n *)
    Lemma mk_call_good body : wf n body -> Good n (mk_call cs n body) (fun vals => den ds vals body).
    Proof.
      intros W vals s Hs _. unfold mk_call.
      destruct (set_table_spec n vals s ltac:(lia)) as (L1 & T1 & F1).
      destruct (eval_sound body W (set_table n vals s) ltac:(lia)) as (V & L & F).
      split; [rewrite V, T1; reflexivity|split; [exact L|]].
      intros i Hi. rewrite (F i ltac:(lia)). apply F1. lia.
    Qed.
  End Eval.

  Lemma allgood_snoc cs ds c d : AllGood cs ds -> Good (length cs) c d -> AllGood (cs ++ [c]) (ds ++ [d]).
  Proof.
    intros [Hl Hg] Hc. split; [rewrite !app_length, Hl; reflexivity|].
    intros k c' d' Ec Ed. destruct (Nat.lt_ge_cases k (length cs)) as [Hlt|Hge].
    - rewrite nth_error_app1 in Ec by exact Hlt. rewrite nth_error_app1 in Ed by (rewrite <- Hl; exact Hlt). eapply Hg; eassumption.
    - assert (k = length cs).
      { destruct (Nat.eq_dec k (length cs)) as [E|NE]; [exact E|]. exfalso.
        assert (Hx : nth_error (cs ++ [c]) k = None) by (apply nth_error_None; rewrite app_length; cbn; lia). congruence. }
      subst k. rewrite nth_error_app2, Nat.sub_diag in Ec by lia. rewrite nth_error_app2 in Ed by lia. rewrite <- Hl, Nat.sub_diag in Ed.
      cbn in Ec, Ed. injection Ec as <-. injection Ed as <-. exact Hc.
  Qed.

  Lemma build_from_good : forall bodies cs ds,
    AllGood cs ds -> wf_bodies_from (length cs) bodies -> (length cs + length bodies = N)%nat ->
    AllGood (build_from bodies cs) (den_from bodies ds) /\ length (build_from bodies cs) = N.
  Proof.
    induction bodies as [|b rest IH]; intros cs ds Hall W HN; cbn [build_from den_from].
    - split; [exact Hall|cbn in HN; lia].
    - destruct W as [Wb Wrest]. cbn [length] in HN.
      assert (Hlen : length cs = length ds) by apply Hall.
      apply IH.
      + apply allgood_snoc; [exact Hall|].
        apply (mk_call_good cs ds (length cs) Hall eq_refl ltac:(lia) b Wb).
      + rewrite app_length. cbn [length]. rewrite Nat.add_1_r. exact Wrest.
      + rewrite app_length. cbn [length]. lia.
  Qed.
End Purity.

(* every form of a well-formed (non-recursive) set of definitions is a pure function of its arguments, whatever the
   contents of the symbol tables left behind by earlier evaluations *)
Theorem forms_pure bodies : wf_bodies bodies ->
  forall j c d, nth_error (build_calls bodies) j = Some c -> nth_error (build_pure bodies) j = Some d ->
  forall vals s, length s = length bodies -> fst (c vals s) = d vals /\ length (snd (c vals s)) = length bodies.
Proof.
  intros W j c d Ec Ed vals s Hs.
  destruct (build_from_good (length bodies) bodies [] []) as [[Hl Hg] HN]; [split; [reflexivity|intros k c0 d0 E; destruct k; discriminate]|exact W|reflexivity|].
  assert (Hj : (j < length bodies)%nat) by (rewrite <- HN; apply nth_error_Some; unfold build_calls in Ec; congruence).
  destruct (Hg j c d Ec Ed vals s Hs Hj) as (V & L & _). split; assumption.
Qed.

(* any history of evaluations, in any order and interleaving: every value is the pure one *)
Theorem history_pure bodies : wf_bodies bodies ->
  forall h s, length s = length bodies -> Forall (fun jv => (fst jv < length bodies)%nat) h ->
  fst (run (build_calls bodies) h s) =
    map (fun jv => match nth_error (build_pure bodies) (fst jv) with Some d => d (snd jv) | None => 0%Q end) h.
Proof.
  intros W. destruct (build_from_good (length bodies) bodies [] []) as [[Hl Hg] HN]; [split; [reflexivity|intros k c0 d0 E; destruct k; discriminate]|exact W|reflexivity|].
  induction h as [|[j vals] h IH]; intros s Hs Hh; [reflexivity|].
  inversion Hh as [|? ? Hj Hh']; subst. cbn [fst snd] in Hj. cbn [run map fst snd].
  fold (build_calls bodies) in *. fold (build_pure bodies) in *.
  destruct (nth_error (build_calls bodies) j) as [c|] eqn:Ec; [|apply nth_error_None in Ec; lia].
  destruct (nth_error (build_pure bodies) j) as [d|] eqn:Ed; [|apply nth_error_None in Ed; lia].
  destruct (Hg j c d Ec Ed vals s Hs Hj) as (V & L & _). destruct (c vals s) as [v s1]. cbn [fst snd] in *.
  specialize (IH s1 L Hh'). destruct (run (build_calls bodies) h s1) as [vs s2]. cbn [fst] in *. rewrite V, IH. reflexivity.
Qed.

(* ------------------------------------------------------------------ histories over several tabulations *)
From V Require Import model.History.
Section HistoryProof.
  Variables model out val arg shared tables : Type.
  Variable render : shared -> model -> out.
  Variable energy : model -> tables -> nat -> arg -> val * tables.
  Variable pure_energy : model -> nat -> arg -> val.
  Variable init_tables : model -> tables.
  Variable shared0 : shared.
  Variable Tok : model -> tables -> Prop.              (* the symbol tables are those of the model's forms *)
  Hypothesis Tok_init : forall m, Tok m (init_tables m).
  Hypothesis energy_pure : forall m tb k x, Tok m tb ->
    fst (energy m tb k x) = pure_energy m k x /\ Tok m (snd (energy m tb k x)).

  Notation tab := (tab model out tables).
  Notation st := (st model out shared tables).
  Notation step := (step model out val arg shared tables render energy init_tables).
  Notation run := (History.run model out val arg shared tables render energy init_tables).
  Notation spec_obs := (spec_obs model out val arg shared render pure_energy shared0).
  Notation spec_run := (spec_run model out val arg shared render pure_energy shared0).

  Definition tab_ok (t : tab) : Prop :=
    (t_cache _ _ _ t = None \/ t_cache _ _ _ t = Some (render shared0 (t_model _ _ _ t))) /\ Tok (t_model _ _ _ t) (t_tables _ _ _ t).
  Definition Inv (s : st) (built : list model) : Prop :=
    map (t_model _ _ _) (tabs _ _ _ _ s) = built /\ defaults _ _ _ _ s = shared0 /\ Forall tab_ok (tabs _ _ _ _ s).

  Lemma update_map i (t : tab) l t0 : nth_error l i = Some t0 -> t_model _ _ _ t = t_model _ _ _ t0 ->
    map (t_model _ _ _) (update _ _ _ i t l) = map (t_model _ _ _) l.
  Proof.
    revert i. induction l as [|h r IH]; intros [|i] E Hm; try discriminate; cbn in *.
    - injection E as ->. rewrite Hm. reflexivity.
    - rewrite (IH i E Hm). reflexivity.
  Qed.
  Lemma update_forall (P : tab -> Prop) i t l : Forall P l -> P t -> Forall P (update _ _ _ i t l).
  Proof.
    revert i. induction l as [|h r IH]; intros [|i] Hl Ht; cbn; try constructor; inversion Hl; subst; auto.
  Qed.
  Lemma nth_error_map_model (l : list tab) i t : nth_error l i = Some t ->
    nth_error (map (t_model _ _ _) l) i = Some (t_model _ _ _ t).
  Proof. intro E. rewrite nth_error_map, E. reflexivity. Qed.

  Lemma step_ok s built o : Inv s built ->
    snd (step s o) = spec_obs built o /\ Inv (fst (step s o)) (match o with Build m => built ++ [m] | _ => built end).
  Proof.
    intros (Hm & Hd & Hf). destruct o as [m|i|i k x]; cbn [History.step History.spec_obs].
    - split; [reflexivity|]. repeat split; cbn.
      + rewrite map_app, Hm. reflexivity.
      + exact Hd.
      + apply Forall_app. split; [exact Hf|]. constructor; [|constructor]. split; [left; reflexivity|apply Tok_init].
    - destruct (nth_error (tabs _ _ _ _ s) i) as [t|] eqn:E.
      + assert (Ht : tab_ok t) by (rewrite Forall_forall in Hf; apply Hf; eapply nth_error_In; exact E).
        rewrite <- Hm, (nth_error_map_model _ _ _ E). cbn [fst snd].
        assert (Ho : match t_cache _ _ _ t with Some c => c | None => render (defaults _ _ _ _ s) (t_model _ _ _ t) end = render shared0 (t_model _ _ _ t)).
        { destruct Ht as [[Hc|Hc] _]; rewrite Hc; [rewrite Hd|]; reflexivity. }
        rewrite Ho. split; [reflexivity|]. repeat split; cbn.
        * apply (update_map i _ _ t E). reflexivity.
        * exact Hd.
        * apply update_forall; [exact Hf|]. split; [right; reflexivity|apply Ht].
      + rewrite <- Hm, nth_error_map, E. cbn. split; [reflexivity|]. repeat split; assumption.
    - destruct (nth_error (tabs _ _ _ _ s) i) as [t|] eqn:E.
      + assert (Ht : tab_ok t) by (rewrite Forall_forall in Hf; apply Hf; eapply nth_error_In; exact E).
        rewrite <- Hm, (nth_error_map_model _ _ _ E).
        destruct (energy_pure (t_model _ _ _ t) (t_tables _ _ _ t) k x (proj2 Ht)) as [Hv Hk].
        destruct (energy (t_model _ _ _ t) (t_tables _ _ _ t) k x) as [v tb]. cbn [fst snd] in *.
        rewrite Hv. split; [reflexivity|]. repeat split; cbn.
        * apply (update_map i _ _ t E). reflexivity.
        * exact Hd.
        * apply update_forall; [exact Hf|]. split; [apply Ht|exact Hk].
      + rewrite <- Hm, nth_error_map, E. cbn. split; [reflexivity|]. repeat split; assumption.
  Qed.

  (* every observation of every history equals what the same operation shows on a fresh object in a fresh process *)
  Theorem history_deterministic : forall h s built, Inv s built -> run s h = spec_run built h.
  Proof.
    induction h as [|o h IH]; intros s built HI; [reflexivity|].
    cbn [History.run History.spec_run]. destruct (step_ok s built o HI) as [Ho HI'].
    destruct (step s o) as [s' b]. cbn [fst snd] in *. rewrite Ho. f_equal. apply IH. exact HI'.
  Qed.
  Corollary history_from_init h : run (History.init model out shared tables shared0) h = spec_run [] h.
  Proof. apply history_deterministic. repeat split; constructor. Qed.
End HistoryProof.

(* ------------------------------------------------------------------ zero-filled species: set iteration order is immaterial *)
From V Require Import model.EamBuilder proof.C03.
Local Open Scope Z_scope.
Lemma sorted_same_elements (l1 l2 : list Z) : StronglySorted Z.lt l1 -> StronglySorted Z.lt l2 ->
  (forall y, In y l1 <-> In y l2) -> l1 = l2.
Proof.
  revert l2. induction l1 as [|x l1 IH]; intros l2 H1 H2 Hin.
  - destruct l2 as [|y l2]; [reflexivity|]. exfalso. apply (proj2 (Hin y)). left. reflexivity.
  - destruct l2 as [|y l2]; [exfalso; apply (proj1 (Hin x)); left; reflexivity|].
    inversion H1 as [|? ? S1 F1]; subst. inversion H2 as [|? ? S2 F2]; subst. rewrite Forall_forall in F1, F2.
    assert (x = y).
    { destruct (proj1 (Hin x) (or_introl eq_refl)) as [E|Hx]; [symmetry; exact E|].
      destruct (proj2 (Hin y) (or_introl eq_refl)) as [E|Hy]; [exact E|].
      specialize (F1 y Hy). specialize (F2 x Hx). lia. }
    subst y. f_equal. apply IH; [exact S1|exact S2|].
    intro z. split; intro Hz.
    + destruct (proj1 (Hin z) (or_intror Hz)) as [E|H]; [|exact H]. subst z. specialize (F1 x Hz). lia.
    + destruct (proj2 (Hin z) (or_intror Hz)) as [E|H]; [|exact H]. subst z. specialize (F2 x Hz). lia.
Qed.
(* the element order of an under-specified EAM model does not depend on the order in which the set of density
   species is iterated (any list with the same members, duplicates included) *)
Theorem builder_order_set_independent embed dens dens' :
  (forall y, In y dens <-> In y dens') -> builder_order embed dens = builder_order embed dens'.
Proof.
  intro H. unfold builder_order. f_equal.
  destruct (sort_unique_spec (filter (fun s => negb (mem s (dedup embed []))) dens)) as [S1 I1].
  destruct (sort_unique_spec (filter (fun s => negb (mem s (dedup embed []))) dens')) as [S2 I2].
  apply sorted_same_elements; [exact S1|exact S2|].
  intro y. rewrite I1, I2, !filter_In, H. reflexivity.
Qed.

(* ------------------------------------------------------------------ the two together: tabulations whose potentials are custom forms *)
Local Open Scope Q_scope.
Definition wf_model := { m : list expr | wf_bodies m }.
Definition ev_energy (m : wf_model) (tb : state) (k : nat) (x : list Q) : Q * state :=
  match nth_error (build_calls (proj1_sig m)) k with Some c => c x tb | None => (0, tb) end.
Definition ev_pure (m : wf_model) (k : nat) (x : list Q) : Q :=
  match nth_error (build_pure (proj1_sig m)) k with Some d => d x | None => 0 end.
Definition ev_init (m : wf_model) : state := repeat [] (length (proj1_sig m)).
Lemma ev_energy_pure (m : wf_model) tb k x : length tb = length (proj1_sig m) ->
  fst (ev_energy m tb k x) = ev_pure m k x /\ length (snd (ev_energy m tb k x)) = length (proj1_sig m).
Proof.
  intro Hl. unfold ev_energy, ev_pure. destruct m as [m W]. cbn [proj1_sig] in *.
  destruct (nth_error (build_calls m) k) as [c|] eqn:Ec.
  - destruct (nth_error (build_pure m) k) as [d|] eqn:Ed.
    + exact (forms_pure m W k c d Ec Ed x tb Hl).
    + exfalso. apply nth_error_None in Ed.
      destruct (build_from_good (length m) m [] []) as [[Hlen _] HN]; [split; [reflexivity|intros j c0 d0 E; destruct j; discriminate]|exact W|reflexivity|].
      assert (k < length (build_calls m))%nat by (apply nth_error_Some; congruence). unfold build_calls, build_pure in *. lia.
  - destruct (nth_error (build_pure m) k) as [d|] eqn:Ed; [|split; [reflexivity|exact Hl]].
    exfalso. apply nth_error_None in Ec.
    destruct (build_from_good (length m) m [] []) as [[Hlen _] HN]; [split; [reflexivity|intros j c0 d0 E; destruct j; discriminate]|exact W|reflexivity|].
    assert (k < length (build_pure m))%nat by (apply nth_error_Some; congruence). unfold build_calls, build_pure in *. lia.
Qed.
Theorem history_evaluator (out shared : Type) (render : shared -> wf_model -> out) (shared0 : shared) h :
  History.run wf_model out Q (list Q) shared state render ev_energy ev_init (History.init wf_model out shared state shared0) h =
  History.spec_run wf_model out Q (list Q) shared render ev_pure shared0 [] h.
Proof.
  apply (history_from_init wf_model out Q (list Q) shared state render ev_energy ev_pure ev_init shared0
           (fun m tb => length tb = length (proj1_sig m))).
  - intro m. unfold ev_init. apply repeat_length.
  - intros m tb k x Hl. apply ev_energy_pure, Hl.
Qed.
