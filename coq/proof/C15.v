(* C15: [Variables] substitution equals textual substitution and changes nothing else. *)
From V Require Import lib.Common model.Store model.Variables.
Local Open Scope nat_scope.

(* a store that differs from another only in its [Variables] section has the same keys and templates everywhere else *)
Theorem variables_inert (st st' : tstore) :
  (forall s, s <> SVariables -> section s st' = section s st) ->
  forall s, s <> SVariables -> options st' s = options st s /\ (forall k, lookup s k st' = lookup s k st).
Proof.
  intros H s Hs. unfold options, lookup. rewrite (H s Hs). split; [reflexivity|intro k; reflexivity].
Qed.

(* the behaviour before the repair: the keys of [Variables] leaked into the iteration of every other section *)
Theorem leaky_refuted :
  let st : tstore := [(SVariables, [(KOpt 7, [Lit 1])]); (SPair, [(KPair 0 1, [Var 7])])] in
  options_leaky st SPair <> options st SPair.
Proof. vm_compute. intro H. discriminate H. Qed.

(* substituted file: same sections, same keys in the same order, every value the interpolated one *)
Lemma subst_entries_spec fuel (st : tstore) s (es : list (key * template)) es' :
  fold_right (fun kv a => match a, interp fuel st s (snd kv) with
                          | Some r, Some v => Some ((fst kv, v) :: r) | _, _ => None end) (Some []) es = Some es' ->
  map fst es' = map fst es /\
  forall k, option_map snd (find (fun kv => key_eqb (fst kv) k) es') =
            match option_map snd (find (fun kv => key_eqb (fst kv) k) es) with Some t => interp fuel st s t | None => None end.
Proof.
  revert es'. induction es as [|[k0 t0] es IH]; intros es' H; cbn [fold_right] in H.
  - injection H as <-. split; [reflexivity|intro k; reflexivity].
  - destruct (fold_right _ (Some []) es) as [r|] eqn:E; [|discriminate].
    cbn [snd fst] in H. destruct (interp fuel st s t0) as [v|] eqn:Ei; [|discriminate]. injection H as <-.
    destruct (IH r eq_refl) as [H1 H2]. split; [cbn [map fst]; rewrite H1; reflexivity|].
    intro k. cbn [find fst]. destruct (key_eqb k0 k); [cbn [option_map snd]; rewrite Ei; reflexivity|apply H2].
Qed.

Lemma section_cons {V} s s0 (es : list (key * V)) st : section s ((s0, es) :: st) = if sect_eqb s0 s then Some es else section s st.
Proof. unfold section. cbn [find fst]. destruct (sect_eqb s0 s); reflexivity. Qed.
Lemma lookup_cons {V} s k s0 (es : list (key * V)) st :
  lookup s k ((s0, es) :: st) = if sect_eqb s0 s then option_map snd (find (fun kv => key_eqb (fst kv) k) es) else lookup s k st.
Proof. unfold lookup. rewrite section_cons. destruct (sect_eqb s0 s); reflexivity. Qed.

Definition subst_sections fuel (st : tstore) (cur : tstore) : option (store (list nat)) :=
  fold_right (fun se acc => match acc with None => None | Some rest =>
        match fold_right (fun kv a => match a, interp fuel st (fst se) (snd kv) with
                                      | Some r, Some v => Some ((fst kv, v) :: r) | _, _ => None end) (Some []) (snd se) with
        | Some es => Some ((fst se, es) :: rest) | None => None end end) (Some []) cur.

Lemma subst_sections_spec fuel (st : tstore) (cur : tstore) : forall cur', subst_sections fuel st cur = Some cur' ->
  forall s, (match section s cur with Some es => exists es', section s cur' = Some es' /\ map fst es' = map fst es | None => section s cur' = None end)
            /\ forall k, lookup s k cur' = match lookup s k cur with Some t => interp fuel st s t | None => None end.
Proof.
  induction cur as [|[s0 es0] cur IH]; intros cur' Hc s; cbn [subst_sections fold_right] in Hc.
  - injection Hc as <-. split; [reflexivity|intro k; reflexivity].
  - fold (subst_sections fuel st cur) in Hc. destruct (subst_sections fuel st cur) as [rest|] eqn:E; [|discriminate]. cbn [fst snd] in Hc.
    destruct (fold_right _ (Some []) es0) as [es0'|] eqn:E0; [|discriminate]. injection Hc as <-.
    destruct (subst_entries_spec fuel st s0 es0 es0' E0) as [K1 K2].
    destruct (IH rest eq_refl s) as [I1 I2].
    rewrite !section_cons. destruct (sect_eqb s0 s) eqn:Es.
    + apply sect_eqb_eq in Es. subst s0. split; [exists es0'; split; [reflexivity|exact K1]|]. intro k. rewrite !lookup_cons.
      rewrite (proj2 (sect_eqb_eq s s) eq_refl). apply K2.
    + split; [exact I1|]. intro k. rewrite !lookup_cons, Es. apply I2.
Qed.

Theorem substituted_equiv fuel (st : tstore) st' : substituted fuel st = Some st' ->
  forall s, (match section s st with Some es => exists es', section s st' = Some es' /\ map fst es' = map fst es | None => section s st' = None end)
            /\ forall k, lookup s k st' = get fuel st s k.
Proof.
  intros H s. destruct (subst_sections_spec fuel st st st' H s) as [G1 G2]. split; [exact G1|]. intro k. rewrite G2. reflexivity.
Qed.

(* a variable is found in [Variables] whatever options the section being read has (no shadowing by a species label or an
   option of the same name) *)
Theorem variables_first fuel (st : tstore) s name t rest :
  lookup SVariables (KOpt name) st = Some t ->
  interp (S fuel) st s (Var name :: rest) =
    match interp (S fuel) st s rest with
    | None => None
    | Some r => option_map (fun x => x ++ r) (interp fuel st s t)
    end.
Proof. intro H. cbn [interp fold_right]. destruct (fold_right _ (Some []) rest) as [r|]; [rewrite H; reflexivity|reflexivity]. Qed.
