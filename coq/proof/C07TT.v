(* C06/C07, Tang-Toennies: with the ideal (closed-form) constants of proof/TTIdeal.v the generated
   __call__ is the documented formula, deriv is its derivative and deriv2 the derivative of deriv;
   every long literal in the source is within 1e-13 (relative) of its ideal constant.  The combination
   into a bound on the offered values needs a continuity estimate that is not mechanised (.._partial). *)
From Coq Require Import Reals Lra List.
From Coquelicot Require Import Coquelicot.
From Interval Require Import Tactic.
From V Require Import lib.RLib lib.RTactics gen.PotFuncs spec.Forms proof.TTIdeal.
Import ListNotations.
Local Open Scope R_scope.

Lemma tt_exact r A b C6 C8 C10 : r <> 0 -> tt_call_I r A b C6 C8 C10 = spec_tang_toennies r A b C6 C8 C10.
Proof.
  intros Hr. unfold tt_call_I, tang_toennies_call_K, spec_tang_toennies, f2n, tt_bohr, tt_hartree.
  cbn [tsum Nat.mul Nat.add fact_R INR].
  replace (- b * (r / (5292 / 10000))) with (- (2500 / 1323) * b * r) by (field; lra).
  replace (- (b * (r / (5292 / 10000)))) with (- (2500 / 1323) * b * r) by (field; lra).
  set (E := exp (- (2500 / 1323) * b * r)).
  field. lra.
Qed.

Lemma tt_d r A b C6 C8 C10 : r <> 0 ->
  is_derive (fun x => tt_call_I x A b C6 C8 C10) r (tt_deriv_I r A b C6 C8 C10).
Proof.
  intros Hr. unfold tt_call_I, tt_deriv_I, tang_toennies_call_K, tang_toennies_deriv_K.
  auto_derive; [dside|].
  replace (exp (2500 / 1323 * b * r)) with (/ exp (- (2500 / 1323) * b * r)) by (rewrite <- exp_Ropp; f_equal; ring).
  set (E := exp (- (2500 / 1323) * b * r)). assert (HE : 0 < E) by apply exp_pos.
  field. split; lra.
Qed.

Lemma tt_d2 r A b C6 C8 C10 : r <> 0 ->
  is_derive (fun x => tt_deriv_I x A b C6 C8 C10) r (tt_deriv2_I r A b C6 C8 C10).
Proof.
  intros Hr. unfold tt_deriv2_I, tt_deriv_I, tang_toennies_deriv2_K, tang_toennies_deriv_K.
  auto_derive; [dside|].
  replace (exp (2500 / 1323 * b * r)) with (/ exp (- (2500 / 1323) * b * r)) by (rewrite <- exp_Ropp; f_equal; ring).
  set (E := exp (- (2500 / 1323) * b * r)). assert (HE : 0 < E) by apply exp_pos.
  field. split; lra.
Qed.

Lemma tt_constants :
  Forall2 lit_close tang_toennies_call_lits tang_toennies_call_ideal /\
  Forall2 lit_close tang_toennies_deriv_lits tang_toennies_deriv_ideal /\
  Forall2 lit_close tang_toennies_deriv2_lits tang_toennies_deriv2_ideal.
Proof.
  unfold tang_toennies_call_lits, tang_toennies_call_ideal, tang_toennies_deriv_lits, tang_toennies_deriv_ideal,
         tang_toennies_deriv2_lits, tang_toennies_deriv2_ideal, lit_close.
  repeat split; repeat constructor; interval with (i_prec 160).
Qed.
