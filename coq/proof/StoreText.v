(* From the store model of C13-C15 / C20 (model/Store.v: structured keys, a "spelling" number for the blanks a key is written
   with) to characters: the file printed from a raw file -- keys in any of their spellings, either delimiter, continuation
   lines, blank lines anywhere after headers and options -- is parsed by the line parser (model/Ini.v) into exactly the store
   that Store.parse gives, with keys as their blank-free texts.  "INI lexing is by generation" becomes a theorem here. *)
From Coq Require Import ZArith List Bool Lia ZifyBool.
From V Require Import lib.Common model.Store.
From V Require Import model.Ini model.ItemLabel proof.IniProofs proof.IniFile proof.IniFile2 proof.C14Label.
Import ListNotations.
Local Open Scope Z_scope.

(* ---- generic: "no later element equals an earlier one" gives "every element is fresh among the earlier ones" on images *)
Section Fresh.
  Variables (A : Type) (f : A -> list Z) (eqA : A -> A -> bool).
  Fixpoint nodup_later (l : list A) : bool := match l with [] => true | x :: r => negb (existsb (fun y => eqA y x) r) && nodup_later r end.
  (* distinct elements have distinct texts (checked on the ordered pairs of the list) *)
  Fixpoint compat_list (l : list A) : bool :=
    match l with [] => true | x :: r => forallb (fun y => eqA y x || negb (zlist_eqb (f x) (f y))) r && compat_list r end.
  Fixpoint fresh_earlier (seen : list (list Z)) (l : list A) : Prop :=
    match l with [] => True | x :: r => existsb (fun s => zlist_eqb s (f x)) seen = false /\ fresh_earlier (seen ++ [f x]) r end.
  Lemma fresh_of_nodup l : nodup_later l = true -> compat_list l = true -> forall seen,
    (forall s y, In s seen -> In y l -> zlist_eqb s (f y) = false) -> fresh_earlier seen l.
  Proof.
    induction l as [|x r IH]; intros Hn Hc seen Hs; [exact I|]. cbn [nodup_later compat_list] in Hn, Hc.
    apply andb_true_iff in Hn. destruct Hn as [Hn1 Hn2]. apply andb_true_iff in Hc. destruct Hc as [Hc1 Hc2]. apply negb_true_iff in Hn1.
    split.
    - destruct (existsb (fun s => zlist_eqb s (f x)) seen) eqn:E; [|reflexivity]. apply existsb_exists in E. destruct E as (s & Hin & Es).
      rewrite (Hs s x Hin (or_introl eq_refl)) in Es. discriminate.
    - apply IH; [exact Hn2|exact Hc2|]. intros s y Hin Hy. apply in_app_or in Hin. destruct Hin as [Hin|[<-|[]]].
      + apply (Hs s y Hin). right. exact Hy.
      + rewrite forallb_forall in Hc1. specialize (Hc1 y Hy). destruct (eqA y x) eqn:Ea.
        * exfalso. assert (existsb (fun y0 => eqA y0 x) r = true) by (apply existsb_exists; exists y; split; assumption). congruence.
        * cbn in Hc1. apply negb_true_iff in Hc1. exact Hc1.
  Qed.
End Fresh.

Section Text.
  Variable ltext : nat -> list Z.        (* the text of a label: species, form and option names *)
  (* characters a label is made of: no whitespace, no delimiter, none of [ ] # ; - > ( ) , *)
  Definition pc (c : Z) : bool :=
    negb (is_sp c || is_delim c || (c =? 91) || (c =? 93) || (c =? 35) || (c =? 59) || (c =? 45) || (c =? 62) || (c =? 40) || (c =? 41) || (c =? 44)).
  Definition label_ok (t : list Z) : Prop := t <> [] /\ forallb pc t = true.
  Hypothesis labels : forall n, label_ok (ltext n).

  Definition pair_ws (sp : nat) : list Z * list Z := nth (sp mod 5) [([], []); ([32], [32]); ([32], []); ([], [32]); ([9], [9])] ([], []).
  Definition fs_ws (sp : nat) : list Z * list Z := nth (sp mod 4) [([], []); ([32], [32]); ([], [32]); ([32], [])] ([], []).
  Definition sig_ws (sp : nat) : list Z * list Z * list Z := nth (sp mod 4) [([], [44], []); ([], [44; 32], []); ([32], [32; 44; 32], [32]); ([], [44; 9], [])] ([], [44], []).
  Fixpoint sep_join (sep : list Z) (ps : list (list Z)) : list Z := match ps with [] => [] | p :: r => sep ++ p ++ sep_join sep r end.
  Definition key_text (k : key) (sp : nat) : list Z :=
    match k with
    | KPair a b => let '(u, v) := pair_ws sp in ltext a ++ u ++ [45] ++ v ++ ltext b
    | KSp a => ltext a
    | KFS a b => let '(u, v) := fs_ws sp in ltext a ++ u ++ [45; 62] ++ v ++ ltext b
    | KSig n ps => let '(o, s, c) := sig_ws sp in ltext n ++ [40] ++ o ++ [114] ++ sep_join s (map ltext ps) ++ c ++ [41]
    | KOpt n => ltext n
    end.
  Definition canon (k : key) : list Z :=
    match k with
    | KPair a b => ltext a ++ [45] ++ ltext b
    | KSp a => ltext a
    | KFS a b => ltext a ++ [45; 62] ++ ltext b
    | KSig n ps => ltext n ++ [40] ++ [114] ++ sep_join [44] (map ltext ps) ++ [41]
    | KOpt n => ltext n
    end.

  Lemma pc_facts c : pc c = true -> is_sp c = false /\ is_delim c = false /\ nb c = true /\ c <> 91 /\ c <> 93 /\ c <> 35 /\ c <> 59.
  Proof. unfold pc, is_sp, is_delim, nb. intro H. repeat split; lia. Qed.
  Lemma label_nb n : filter nb (ltext n) = ltext n.
  Proof.
    destruct (labels n) as [_ H]. induction (ltext n) as [|c t IH]; [reflexivity|]. cbn [forallb] in H. apply andb_true_iff in H. destruct H as [Hc Ht].
    cbn [filter]. rewrite (proj1 (proj2 (proj2 (pc_facts c Hc)))), (IH Ht). reflexivity.
  Qed.
  Lemma label_nodelim n : forallb (fun c => negb (is_delim c)) (ltext n) = true.
  Proof.
    destruct (labels n) as [_ H]. rewrite forallb_forall in *. intros c Hc. rewrite (proj1 (proj2 (pc_facts c (H c Hc)))). reflexivity.
  Qed.
  Lemma label_head n : exists c t, ltext n = c :: t /\ pc c = true.
  Proof. destruct (labels n) as [Hn H]. destruct (ltext n) as [|c t]; [contradiction|]. exists c, t. cbn [forallb] in H. apply andb_true_iff in H. tauto. Qed.
  Lemma label_last n : exists t c, ltext n = t ++ [c] /\ pc c = true.
  Proof.
    destruct (labels n) as [Hn H]. destruct (exists_last Hn) as (t & c & E). exists t, c. split; [exact E|]. rewrite E, forallb_app in H.
    apply andb_true_iff in H. destruct H as [_ H]. cbn in H. rewrite andb_true_r in H. exact H.
  Qed.

  (* every spelling of a key has the blank-free text as its characters other than blanks and tabs *)
  Lemma sep_join_nb s ps : filter nb s = [44] -> filter nb (sep_join s (map ltext ps)) = sep_join [44] (map ltext ps).
  Proof. intro Hs. induction ps as [|p ps IH]; [reflexivity|]. cbn [map sep_join]. rewrite !filter_app, Hs, label_nb, IH. reflexivity. Qed.
  Lemma key_text_nb k sp : filter nb (key_text k sp) = canon k.
  Proof.
    destruct k as [a b|a|a b|n ps|n]; cbn [key_text canon]; try apply label_nb.
    - assert (H : filter nb (fst (pair_ws sp)) = [] /\ filter nb (snd (pair_ws sp)) = []).
      { unfold pair_ws. assert (Hm : (sp mod 5 < 5)%nat) by (apply Nat.mod_upper_bound; discriminate). destruct (sp mod 5)%nat as [|[|[|[|[|?]]]]]; cbn; (split; reflexivity) || lia. }
      destruct (pair_ws sp) as [u v]. cbn [fst snd] in H. destruct H as [Hu Hv]. rewrite !filter_app, !label_nb, Hu, Hv. reflexivity.
    - assert (H : filter nb (fst (fs_ws sp)) = [] /\ filter nb (snd (fs_ws sp)) = []).
      { unfold fs_ws. assert (Hm : (sp mod 4 < 4)%nat) by (apply Nat.mod_upper_bound; discriminate). destruct (sp mod 4)%nat as [|[|[|[|?]]]]; cbn; (split; reflexivity) || lia. }
      destruct (fs_ws sp) as [u v]. cbn [fst snd] in H. destruct H as [Hu Hv]. rewrite !filter_app, !label_nb, Hu, Hv. reflexivity.
    - assert (H : filter nb (fst (fst (sig_ws sp))) = [] /\ filter nb (snd (fst (sig_ws sp))) = [44] /\ filter nb (snd (sig_ws sp)) = []).
      { unfold sig_ws. assert (Hm : (sp mod 4 < 4)%nat) by (apply Nat.mod_upper_bound; discriminate). destruct (sp mod 4)%nat as [|[|[|[|?]]]]; cbn; (repeat split; reflexivity) || lia. }
      destruct (sig_ws sp) as [[o s] c]. cbn [fst snd] in H. destruct H as (Ho & Hs & Hc). rewrite !filter_app, label_nb, Ho, Hc, (sep_join_nb _ _ Hs). reflexivity.
  Qed.
  (* the blank-free text starts with a label character and ends with one or with ")" : stripping changes nothing *)
  Lemma canon_ends k : exists c t d, canon k = c :: t /\ is_sp c = false /\ c <> 91 /\ c <> 35 /\ c <> 59 /\ (exists u, canon k = u ++ [d]) /\ is_sp d = false.
  Proof.
    assert (L : forall n rest, exists c t, ltext n ++ rest = c :: t /\ is_sp c = false /\ c <> 91 /\ c <> 35 /\ c <> 59).
    { intros n rest. destruct (label_head n) as (c & t & E & Hc). exists c, (t ++ rest). rewrite E. destruct (pc_facts c Hc) as (A & _ & _ & B & _ & C & D). repeat split; assumption. }
    assert (R : forall pre n, exists d, (exists u, pre ++ ltext n = u ++ [d]) /\ is_sp d = false).
    { intros pre n. destruct (label_last n) as (t & d & E & Hd). exists d. split; [exists (pre ++ t); rewrite E, app_assoc; reflexivity|apply (pc_facts d Hd)]. }
    destruct k as [a b|a|a b|n ps|n]; cbn [canon].
    - destruct (L a ([45] ++ ltext b)) as (c & t & E & H). destruct (R (ltext a ++ [45]) b) as (d & (u & Eu) & Hd). exists c, t, d. rewrite <- app_assoc in Eu. cbn [app] in *. repeat split; try tauto. exists u. exact Eu.
    - destruct (L a []) as (c & t & E & H). destruct (R [] a) as (d & (u & Eu) & Hd). rewrite app_nil_r in E. cbn [app] in Eu. exists c, t, d. repeat split; try tauto. exists u. exact Eu.
    - destruct (L a ([45; 62] ++ ltext b)) as (c & t & E & H). destruct (R (ltext a ++ [45; 62]) b) as (d & (u & Eu) & Hd). exists c, t, d. rewrite <- app_assoc in Eu. cbn [app] in *. repeat split; try tauto. exists u. exact Eu.
    - destruct (L n ([40] ++ [114] ++ sep_join [44] (map ltext ps) ++ [41])) as (c & t & E & H). exists c, t, 41. repeat split; try tauto.
      exists (ltext n ++ [40] ++ [114] ++ sep_join [44] (map ltext ps)). rewrite <- !app_assoc. reflexivity.
    - destruct (L n []) as (c & t & E & H). destruct (R [] n) as (d & (u & Eu) & Hd). rewrite app_nil_r in E. cbn [app] in Eu. exists c, t, d. repeat split; try tauto. exists u. exact Eu.
  Qed.
  Lemma strip_noop c t u d : is_sp c = false -> is_sp d = false -> c :: t = u ++ [d] -> strip (c :: t) = c :: t.
  Proof. intros Hc Hd E. unfold strip. rewrite (lstrip_nosp c t Hc), E. apply (rstrip_app_nonsp u d [] Hd). Qed.
  Lemma xform_key_text k sp : xform (key_text k sp) = canon k.
  Proof.
    rewrite xform_alt, key_text_nb. destruct (canon_ends k) as (c & t & d & E & Hc & _ & _ & _ & (u & Eu) & Hd). rewrite E in *. exact (strip_noop c t u d Hc Hd Eu).
  Qed.
  Lemma key_text_head k sp : exists c t, key_text k sp = c :: t /\ is_sp c = false /\ c <> 91 /\ c <> 35 /\ c <> 59.
  Proof.
    assert (L : forall n rest, exists c t, ltext n ++ rest = c :: t /\ is_sp c = false /\ c <> 91 /\ c <> 35 /\ c <> 59).
    { intros n rest. destruct (label_head n) as (c & t & E & Hc). exists c, (t ++ rest). rewrite E. destruct (pc_facts c Hc) as (A & _ & _ & B & _ & C & D). repeat split; assumption. }
    destruct k as [a b|a|a b|n ps|n]; cbn [key_text].
    - destruct (pair_ws sp) as [u v]. apply L.
    - rewrite <- (app_nil_r (ltext a)). apply L.
    - destruct (fs_ws sp) as [u v]. apply L.
    - destruct (sig_ws sp) as [[o s] c]. apply L.
    - rewrite <- (app_nil_r (ltext n)). apply L.
  Qed.
  Lemma key_text_nodelim k sp : forallb (fun c => negb (is_delim c)) (key_text k sp) = true.
  Proof.
    assert (J : forall s ps, forallb (fun c => negb (is_delim c)) s = true -> forallb (fun c => negb (is_delim c)) (sep_join s (map ltext ps)) = true).
    { intros s ps Hs. induction ps as [|p ps IH]; [reflexivity|]. cbn [map sep_join]. rewrite !forallb_app, Hs, label_nodelim, IH. reflexivity. }
    destruct k as [a b|a|a b|n ps|n]; cbn [key_text]; try apply label_nodelim.
    - unfold pair_ws. assert (Hm : (sp mod 5 < 5)%nat) by (apply Nat.mod_upper_bound; discriminate).
      destruct (sp mod 5)%nat as [|[|[|[|[|?]]]]]; cbn [nth]; try lia; rewrite !forallb_app, !label_nodelim; reflexivity.
    - unfold fs_ws. assert (Hm : (sp mod 4 < 4)%nat) by (apply Nat.mod_upper_bound; discriminate).
      destruct (sp mod 4)%nat as [|[|[|[|?]]]]; cbn [nth]; try lia; rewrite !forallb_app, !label_nodelim; reflexivity.
    - unfold sig_ws. assert (Hm : (sp mod 4 < 4)%nat) by (apply Nat.mod_upper_bound; discriminate).
      destruct (sp mod 4)%nat as [|[|[|[|?]]]]; cbn [nth]; try lia; rewrite !forallb_app, label_nodelim, J by reflexivity; reflexivity.
  Qed.

  (* ---- distinct keys have distinct texts (labels with distinct texts), except that a species key and an option key are both
          just their label: KSp a and KOpt a print alike (they never share a section: [EAM-Embed] / [EAM-Density] hold species,
          the other sections options) *)
  Hypothesis label_inj : forall a b, ltext a = ltext b -> a = b.
  Definition npc_head (t : list Z) : Prop := match t with [] => True | c :: _ => pc c = false end.
  Lemma max_prefix a : forall a' t t', forallb pc a = true -> forallb pc a' = true -> npc_head t -> npc_head t' -> a ++ t = a' ++ t' -> a = a' /\ t = t'.
  Proof.
    induction a as [|c a IH]; intros a' t t' Ha Ha' Ht Ht' E.
    - destruct a' as [|c' a']; [split; [reflexivity|exact E]|]. cbn [app] in E. subst t. cbn in Ht. cbn [forallb] in Ha'. apply andb_true_iff in Ha'. destruct Ha' as [H _]. congruence.
    - cbn [forallb] in Ha. apply andb_true_iff in Ha. destruct Ha as [Hc Ha]. destruct a' as [|c' a'].
      + cbn [app] in E. subst t'. cbn in Ht'. congruence.
      + cbn [app] in E. injection E as -> E. cbn [forallb] in Ha'. apply andb_true_iff in Ha'. destruct Ha' as [_ Ha'].
        destruct (IH a' t t' Ha Ha' Ht Ht' E) as [-> ->]. split; reflexivity.
  Qed.
  Lemma label_pc n : forallb pc (ltext n) = true. Proof. apply labels. Qed.
  Lemma label_cons n : exists c t, ltext n = c :: t /\ pc c = true. Proof. apply label_head. Qed.
  Lemma sep_join_inj ps : forall qs, sep_join [44] (map ltext ps) ++ [41] = sep_join [44] (map ltext qs) ++ [41] -> ps = qs.
  Proof.
    induction ps as [|p ps IH]; intros [|q qs] E; cbn [map sep_join app] in E; try reflexivity; try discriminate.
    injection E as E. rewrite <- !app_assoc in E.
    assert (T : forall l, npc_head (sep_join [44] (map ltext l) ++ [41])) by (intros [|x l]; reflexivity).
    destruct (max_prefix _ _ _ _ (label_pc p) (label_pc q) (T ps) (T qs) E) as [Ep Er]. rewrite (label_inj _ _ Ep), (IH _ Er). reflexivity.
  Qed.
  Definition single_clash (k1 k2 : key) : Prop := exists a, (k1 = KSp a /\ k2 = KOpt a) \/ (k1 = KOpt a /\ k2 = KSp a).
  Definition first_label (k : key) : nat := match k with KPair a _ | KSp a | KFS a _ | KSig a _ | KOpt a => a end.
  Definition ktail (k : key) : list Z :=
    match k with
    | KPair _ b => [45] ++ ltext b | KSp _ | KOpt _ => [] | KFS _ b => [45; 62] ++ ltext b
    | KSig _ ps => [40] ++ [114] ++ sep_join [44] (map ltext ps) ++ [41]
    end.
  Lemma canon_split k : canon k = ltext (first_label k) ++ ktail k /\ npc_head (ktail k).
  Proof. destruct k; cbn [canon first_label ktail]; (split; [rewrite ?app_nil_r; reflexivity|reflexivity]). Qed.
  Theorem canon_inj k1 k2 : canon k1 = canon k2 -> k1 = k2 \/ single_clash k1 k2.
  Proof.
    intro E. destruct (canon_split k1) as [E1 T1]. destruct (canon_split k2) as [E2 T2]. rewrite E1, E2 in E.
    destruct (max_prefix _ _ _ _ (label_pc _) (label_pc _) T1 T2 E) as [El Et]. apply label_inj in El.
    destruct k1 as [a b|a|a b|n ps|n], k2 as [c d|c|c d|m qs|m]; cbn [first_label ktail] in El, Et; subst; try discriminate;
      try (left; reflexivity); try (right; eexists; left; split; reflexivity); try (right; eexists; right; split; reflexivity).
    - cbn [app] in Et. injection Et as Et. left. f_equal. apply label_inj, Et.
    - cbn [app] in Et. injection Et as Et. destruct (label_cons b) as (x & t & Eb & Hx). rewrite Eb in Et. injection Et as -> _. discriminate.
    - cbn [app] in Et. injection Et as Et. destruct (label_cons d) as (x & t & Eb & Hx). rewrite Eb in Et. injection Et as <- _. discriminate.
    - cbn [app] in Et. injection Et as Et. left. f_equal. apply label_inj, Et.
    - cbn [app] in Et. injection Et as Et. left. f_equal. apply sep_join_inj, Et.
  Qed.

  Lemma zlist_eqb_true a : forall b, zlist_eqb a b = true -> a = b.
  Proof.
    induction a as [|x a IH]; intros [|y b] H; cbn in H; try discriminate; [reflexivity|].
    apply andb_true_iff in H. destruct H as [H1 H2]. apply Z.eqb_eq in H1. subst. f_equal. apply IH, H2.
  Qed.
  Lemma compat_keys_of_inj (l : list key) : (forall k1 k2, In k1 l -> In k2 l -> ~ single_clash k1 k2) ->
    compat_list key canon (fun a b => key_eqb a b) l = true.
  Proof.
    induction l as [|x r IH]; intro H; [reflexivity|]. cbn [compat_list]. apply andb_true_iff. split.
    - apply forallb_forall. intros y Hy. destruct (zlist_eqb (canon x) (canon y)) eqn:E; [|apply orb_true_r].
      apply zlist_eqb_true in E. destruct (canon_inj x y E) as [->|C].
      + rewrite (proj2 (key_eqb_eq y y) eq_refl). reflexivity.
      + exfalso. exact (H x y (or_introl eq_refl) (or_intror Hy) C).
    - apply IH. intros k1 k2 H1 H2. apply H; right; assumption.
  Qed.

  (* ---- the species a key names (model/ItemLabel.v: pair_key, fs_key) *)
  Lemma label_strip n : strip (ltext n) = ltext n.
  Proof.
    destruct (label_head n) as (c & t & E & Hc). destruct (label_last n) as (u & d & Eu & Hd). rewrite E in *.
    exact (strip_noop c t u d (proj1 (pc_facts c Hc)) (proj1 (pc_facts d Hd)) Eu).
  Qed.
  Lemma label_without c : pc c = false -> forall n, without c (ltext n).
  Proof.
    intros Hc n. unfold without. destruct (labels n) as [_ H]. rewrite forallb_forall in *. intros x Hx. specialize (H x Hx).
    destruct (x =? c) eqn:E; [apply Z.eqb_eq in E; subst; congruence|reflexivity].
  Qed.
  Lemma label_nonempty n : is_empty (ltext n) = false.
  Proof. destruct (label_head n) as (c & t & E & _). rewrite E. reflexivity. Qed.
  Lemma split_arrow_cons c d r : split_arrow (c :: d :: r) =
    if (c =? 45) && (d =? 62) then Some ([], r) else match split_arrow (d :: r) with Some (a, b) => Some (c :: a, b) | None => None end.
  Proof. reflexivity. Qed.
  Lemma split_arrow_none l : without 45 l -> split_arrow l = None.
  Proof.
    unfold without. induction l as [|c r IH]; intro H; [reflexivity|]. cbn [forallb] in H. apply andb_true_iff in H. destruct H as [Hc Hr].
    apply negb_true_iff in Hc. destruct r as [|d r']; [reflexivity|]. rewrite split_arrow_cons, Hc. cbn [andb]. rewrite (IH Hr). reflexivity.
  Qed.
  Lemma split_arrow_app a b : without 45 a -> split_arrow (a ++ 45 :: 62 :: b) = Some (a, b).
  Proof.
    unfold without. induction a as [|c a IH]; intro H; [reflexivity|]. cbn [forallb] in H. apply andb_true_iff in H. destruct H as [Hc Ha].
    apply negb_true_iff in Hc. cbn [app]. destruct (a ++ 45 :: 62 :: b) as [|d r'] eqn:E; [destruct a; discriminate|].
    rewrite split_arrow_cons, Hc. cbn [andb]. rewrite (IH Ha). reflexivity.
  Qed.
  Theorem pair_key_canon a b : pair_key (canon (KPair a b)) = Some (ltext a, ltext b).
  Proof.
    unfold pair_key. cbn [canon app]. rewrite (split_first_app 45 _ _ (label_without 45 eq_refl a)), (contains_without _ _ (label_without 45 eq_refl b)).
    unfold two_species. rewrite !label_strip, !label_nonempty. reflexivity.
  Qed.
  Theorem fs_key_canon a b : fs_key (canon (KFS a b)) = Some (ltext a, ltext b).
  Proof.
    unfold fs_key. cbn [canon app]. rewrite (split_arrow_app _ _ (label_without 45 eq_refl a)), (split_arrow_none _ (label_without 45 eq_refl b)).
    unfold two_species. rewrite !label_strip, !label_nonempty. reflexivity.
  Qed.

  (* ---- the signature a [Potential-Form] key spells (model/ItemLabel.v: sig_key), for labels that are identifiers *)
  Lemma split_all_label c n : pc c = false -> split_all c (ltext n) = [ltext n].
  Proof.
    intro Hc. pose proof (label_without c Hc n) as H. unfold without in H. induction (ltext n) as [|x t IH]; [reflexivity|].
    cbn [forallb] in H. apply andb_true_iff in H. destruct H as [Hx Ht]. apply negb_true_iff in Hx. cbn [split_all]. rewrite Hx, (IH Ht). reflexivity.
  Qed.
  Lemma split_all_app_label c n rest : pc c = false -> split_all c (ltext n ++ c :: rest) = ltext n :: split_all c rest.
  Proof.
    intro Hc. pose proof (label_without c Hc n) as H. unfold without in H. induction (ltext n) as [|x t IH].
    - cbn [app split_all]. rewrite Z.eqb_refl. reflexivity.
    - cbn [forallb] in H. apply andb_true_iff in H. destruct H as [Hx Ht]. apply negb_true_iff in Hx. cbn [app split_all]. rewrite Hx, (IH Ht). reflexivity.
  Qed.
  Lemma split_all_sep_join ps : forall first, (exists n, first = ltext n) \/ first = [114] ->
    split_all 44 (first ++ sep_join [44] (map ltext ps)) = first :: map ltext ps.
  Proof.
    induction ps as [|p ps IH]; intros first Hf.
    - cbn [map sep_join]. rewrite app_nil_r. destruct Hf as [(n & ->)| ->]; [apply split_all_label; reflexivity|reflexivity].
    - cbn [map sep_join]. cbn [app]. 
      assert (E : split_all 44 (first ++ 44 :: ltext p ++ sep_join [44] (map ltext ps)) = first :: split_all 44 (ltext p ++ sep_join [44] (map ltext ps))).
      { destruct Hf as [(n & ->)| ->]; [apply split_all_app_label; reflexivity|reflexivity]. }
      rewrite E, (IH (ltext p) (or_introl (ex_intro _ p eq_refl))). reflexivity.
  Qed.
  Theorem sig_key_canon n ps : (forall m, ident_word (ltext m) = true) ->
    sig_key (canon (KSig n ps)) = Some (ltext n, [114] :: map ltext ps).
  Proof.
    intro Hid. unfold sig_key.
    assert (Es : strip (canon (KSig n ps)) = canon (KSig n ps)).
    { destruct (canon_ends (KSig n ps)) as (c & t & d & E & Hc & _ & _ & _ & (u & Eu) & Hd). rewrite E in *. exact (strip_noop c t u d Hc Hd Eu). }
    rewrite Es. cbn [canon app]. rewrite (split_first_app 40 _ _ (label_without 40 eq_refl n)), (Hid n).
    assert (Er : rev (114 :: sep_join [44] (map ltext ps) ++ [41]) = 41 :: rev (114 :: sep_join [44] (map ltext ps))).
    { change (114 :: sep_join [44] (map ltext ps) ++ [41]) with ((114 :: sep_join [44] (map ltext ps)) ++ [41]). rewrite rev_app_distr. reflexivity. }
    rewrite Er. change (41 =? 41) with true. cbv iota. rewrite rev_involutive.
    change (114 :: sep_join [44] (map ltext ps)) with ([114] ++ sep_join [44] (map ltext ps)). rewrite (split_all_sep_join ps [114] (or_intror eq_refl)).
    cbn [map]. rewrite map_map. assert (Em : map (fun x => strip (ltext x)) ps = map ltext ps) by (apply map_ext; intro; apply label_strip). rewrite Em.
    assert (Ef : forallb ident_word (strip [114] :: map ltext ps) = true).
    { cbn [forallb]. apply andb_true_iff. split; [reflexivity|]. apply forallb_forall. intros x Hx. apply in_map_iff in Hx. destruct Hx as (m & <- & _). apply Hid. }
    rewrite Ef. reflexivity.
  Qed.

  (* ---- sections *)
  Definition table_ws (sp : nat) : list Z * list Z := nth (sp mod 4) [([], []); ([32], []); ([], [32]); ([32; 32], [32])] ([], []).
  Definition sect_text (s : Store.sect) : list Z :=
    match s with
    | SPair => [80; 97; 105; 114] | SEmbed => [69; 65; 77; 45; 69; 109; 98; 101; 100] | SDensity => [69; 65; 77; 45; 68; 101; 110; 115; 105; 116; 121]
    | SForm => [80; 111; 116; 101; 110; 116; 105; 97; 108; 45; 70; 111; 114; 109] | STabulation => [84; 97; 98; 117; 108; 97; 116; 105; 111; 110]
    | SSpecies => [83; 112; 101; 99; 105; 101; 115] | SVariables => variables
    | STable n sp => let '(u, v) := table_ws sp in [84; 97; 98; 108; 101; 45; 70; 111; 114; 109; 58] ++ u ++ ltext n ++ v
    | SOther n => ltext n
    end.

  (* ---- values and lines *)
  Definition val := (list Z * list (list Z))%type.          (* first line, continuation lines (already indented) *)
  Definition delim_ws (sp : nat) : list Z * Z * list Z := nth (sp mod 5) [([32], 58, [32]); ([32], 61, [32]); ([], 58, []); ([], 61, []); ([32], 58, [32; 32])] ([], 58, []).
  Definition ol (e : entry val) : oline :=
    let '(w1, d, w2) := delim_ws (e_spelling e) in mkol (key_text (e_key e) (e_spelling e)) w1 d w2 (fst (e_val e)) (snd (e_val e)).
  Definition to_osec (f : rawfile val) : list osec := map (fun se => (sect_text (fst se), map ol (snd se))) f.
  Definition values_ok (f : rawfile val) : Prop := Forall (fun se => Forall (fun e => Forall (plain_line 0) (snd (e_val e))) (snd se)) f.
  Definition headers_ok (f : rawfile val) : Prop := Forall (fun se => wf_header (sect_text (fst se))) f.
  Definition text_store (f : rawfile val) : list (list Z * list (list Z * list Z)) :=
    map (fun se => (sect_text (fst se), map (fun e => (canon (e_key e), final_value (strip (fst (e_val e)) :: map strip (snd (e_val e))))) (snd se))) f.
  (* distinct keys of a section / distinct sections have distinct texts (computable; see canon_inj_* for why it holds) *)
  Definition compat (f : rawfile val) : bool :=
    compat_list Store.sect sect_text (fun a b => sect_eqb a b) (map fst f)
    && forallb (fun se => compat_list key canon (fun a b => key_eqb a b) (map (@e_key val) (snd se))) f.

  Lemma keyx_ol (e : entry val) : keyx (ol e) = canon (e_key e).
  Proof.
    unfold keyx, ol. destruct (delim_ws (e_spelling e)) as [[w1 d] w2]. cbn [ok_key].
    destruct (canon_ends (e_key e)) as (c & t & d0 & E & Hc & _ & _ & _ & (u & Eu) & Hd).
    (* rstrip of a key text: it ends with a non-space character *)
    assert (R : rstrip (key_text (e_key e) (e_spelling e)) = key_text (e_key e) (e_spelling e)).
    { assert (exists u' d', key_text (e_key e) (e_spelling e) = u' ++ [d'] /\ is_sp d' = false) as (u' & d' & E' & Hd').
      { destruct (e_key e) as [a b|a|a b|n ps|n]; cbn [key_text].
        - destruct (pair_ws (e_spelling e)) as [x y]. destruct (label_last b) as (t' & d' & Eb & Hb). exists (ltext a ++ x ++ [45] ++ y ++ t'), d'. rewrite Eb, <- !app_assoc. split; [reflexivity|apply (pc_facts d' Hb)].
        - destruct (label_last a) as (t' & d' & Eb & Hb). exists t', d'. split; [exact Eb|apply (pc_facts d' Hb)].
        - destruct (fs_ws (e_spelling e)) as [x y]. destruct (label_last b) as (t' & d' & Eb & Hb). exists (ltext a ++ x ++ [45; 62] ++ y ++ t'), d'. rewrite Eb, <- !app_assoc. split; [reflexivity|apply (pc_facts d' Hb)].
        - destruct (sig_ws (e_spelling e)) as [[o s] c']. exists (ltext n ++ [40] ++ o ++ [114] ++ sep_join s (map ltext ps) ++ c'), 41. rewrite <- !app_assoc. split; reflexivity.
        - destruct (label_last n) as (t' & d' & Eb & Hb). exists t', d'. split; [exact Eb|apply (pc_facts d' Hb)]. }
      rewrite E'. apply (rstrip_app_nonsp u' d' [] Hd'). }
    rewrite R. apply xform_key_text.
  Qed.
  Lemma delim_ws_ok sp : let '(w1, d, w2) := delim_ws sp in all_sp w1 /\ is_delim d = true /\ all_sp w2.
  Proof.
    unfold delim_ws. assert (Hm : (sp mod 5 < 5)%nat) by (apply Nat.mod_upper_bound; discriminate).
    destruct (sp mod 5)%nat as [|[|[|[|[|?]]]]]; cbn [nth]; try lia; repeat split; reflexivity.
  Qed.
  Lemma wf_opt_ol (e : entry val) : Forall (plain_line 0) (snd (e_val e)) -> wf_opt (ol e).
  Proof.
    intro Hv. unfold wf_opt, ol.
    pose proof (delim_ws_ok (e_spelling e)) as D. destruct (delim_ws (e_spelling e)) as [[w1 d] w2]. destruct D as (H1 & Hd & H2).
    cbn [ok_key ok_w1 ok_d ok_w2 ok_conts].
    destruct (key_text_head (e_key e) (e_spelling e)) as (c & t & Ek & Hc).
    split; [exists c, t; split; [exact Ek|exact Hc]|]. split; [apply key_text_nodelim|]. repeat split; assumption.
  Qed.

  Lemma expect_entry (e : entry val) :
    (keyx (ol e), final_value (snd (stored (ol e)))) = (canon (e_key e), final_value (strip (fst (e_val e)) :: map strip (snd (e_val e)))).
  Proof. rewrite keyx_ol. unfold stored, ol. destruct (delim_ws (e_spelling e)) as [[w1 d] w2]. reflexivity. Qed.
  Lemma opts_wf_of (es : list (entry val)) : Forall (fun e => Forall (plain_line 0) (snd (e_val e))) es ->
    nodup_keys (map (forget_entry val) es) = true -> compat_list key canon (fun a b => key_eqb a b) (map (@e_key val) es) = true ->
    forall seen, (forall s e, In s seen -> In e es -> zlist_eqb s (canon (e_key e)) = false) -> opts_wf seen (map ol es).
  Proof.
    induction es as [|e es IH]; intros Hv Hn Hc seen Hs; [exact I|]. inversion Hv as [|? ? Hv1 Hv2]; subst.
    cbn [map nodup_keys forget_entry fst compat_list] in Hn, Hc. apply andb_true_iff in Hn. destruct Hn as [Hn1 Hn2]. apply andb_true_iff in Hc. destruct Hc as [Hc1 Hc2].
    apply negb_true_iff in Hn1. cbn [map opts_wf]. rewrite keyx_ol. split; [apply wf_opt_ol, Hv1|]. split.
    - destruct (existsb (fun s => zlist_eqb s (canon (e_key e))) seen) eqn:E; [|reflexivity]. apply existsb_exists in E. destruct E as (s & Hin & Es).
      rewrite (Hs s e Hin (or_introl eq_refl)) in Es. discriminate.
    - apply IH; [exact Hv2|exact Hn2|exact Hc2|]. intros s e' Hin He'. apply in_app_or in Hin. destruct Hin as [Hin|[<-|[]]].
      + apply (Hs s e' Hin). right. exact He'.
      + rewrite forallb_forall in Hc1. specialize (Hc1 (e_key e') (in_map _ _ _ He')). destruct (key_eqb (e_key e') (e_key e)) eqn:Ea.
        * exfalso. assert (Hx : has_key (e_key e) (map (forget_entry val) es) = true).
          { unfold has_key. apply existsb_exists. exists (forget_entry val e'). split; [apply in_map, He'|exact Ea]. }
          exact (eq_true_false_abs _ Hx Hn1).
        * cbn in Hc1. apply negb_true_iff in Hc1. exact Hc1.
  Qed.
  Lemma secs_wf_of (f : rawfile val) : values_ok f -> headers_ok f ->
    nodup_sects (forget f) = true -> forallb (fun se => nodup_keys (snd se)) (forget f) = true -> compat f = true ->
    forall seen, (forall s se, In s seen -> In se f -> zlist_eqb s (sect_text (fst se)) = false) -> secs_wf seen (to_osec f).
  Proof.
    unfold compat. induction f as [|se f IH]; intros Hv Hh Hn Hk Hc seen Hs; [exact I|].
    inversion Hv as [|? ? Hv1 Hv2]; subst. inversion Hh as [|? ? Hh1 Hh2]; subst.
    cbn [forget map nodup_sects fst snd forallb compat_list] in Hn, Hk, Hc.
    apply andb_true_iff in Hn. destruct Hn as [Hn1 Hn2]. apply andb_true_iff in Hk. destruct Hk as [Hk1 Hk2].
    apply andb_true_iff in Hc. destruct Hc as [Hc1 Hc2]. apply andb_true_iff in Hc1. destruct Hc1 as [Hc1a Hc1b]. apply andb_true_iff in Hc2. destruct Hc2 as [Hc2a Hc2b].
    apply negb_true_iff in Hn1. cbn [to_osec map secs_wf fst snd]. split; [exact Hh1|]. split; [|split].
    - destruct (existsb (fun n => zlist_eqb n (sect_text (fst se))) seen) eqn:E; [|reflexivity]. apply existsb_exists in E. destruct E as (s & Hin & Es).
      rewrite (Hs s se Hin (or_introl eq_refl)) in Es. discriminate.
    - apply opts_wf_of; [exact Hv1|exact Hk1|exact Hc2a|]. intros s e [].
    - apply IH; try assumption; [rewrite Hc1b, Hc2b; reflexivity|]. intros s se' Hin Hse'. apply in_app_or in Hin. destruct Hin as [Hin|[<-|[]]].
      + apply (Hs s se' Hin). right. exact Hse'.
      + rewrite forallb_forall in Hc1a. specialize (Hc1a (fst se') (in_map _ _ _ Hse')). destruct (sect_eqb (fst se') (fst se)) eqn:Ea.
        * exfalso. assert (Hx : Store.has_sect (fst se) (forget f) = true).
          { unfold Store.has_sect. apply existsb_exists. exists (fst se', map (forget_entry val) (snd se')). split; [|exact Ea]. unfold forget. apply (in_map (fun x => (fst x, map (forget_entry val) (snd x))) _ _ Hse'). }
          exact (eq_true_false_abs _ Hx Hn1).
        * cbn in Hc1a. apply negb_true_iff in Hc1a. exact Hc1a.
  Qed.

  (* the printed file, with blank lines wherever the printer likes, parses to the store *)
  Theorem store_text_ok (f : rawfile val) (f2 : list osec2) st : plain f2 = to_osec f -> blanks_ok f2 ->
    values_ok f -> headers_ok f -> compat f = true -> Store.parse f = Ok st ->
    parse_ini (render_file2 f2) = Some (text_store f).
  Proof.
    intros Hp Hb Hv Hh Hc Hparse. unfold Store.parse in Hparse.
    destruct (nodup_sects (forget f) && forallb (fun se => nodup_keys (snd se)) (forget f)) eqn:E; [|discriminate].
    apply andb_true_iff in E. destruct E as [E1 E2].
    rewrite (parse_render2 f2); [|rewrite Hp; apply (secs_wf_of f Hv Hh E1 E2 Hc []); intros s se []|exact Hb].
    rewrite Hp. unfold expect, to_osec, text_store. rewrite map_map. f_equal. apply map_ext. intro se. cbn [fst snd]. rewrite map_map. f_equal.
    apply map_ext. intro e. apply expect_entry.
  Qed.
  (* headers are fine whatever the labels: fixed names and label characters contain no "]" *)
  Lemma label_no93 n : forallb (fun c => negb (c =? 93)) (ltext n) = true.
  Proof. destruct (labels n) as [_ H]. rewrite forallb_forall in *. intros c Hc. pose proof (pc_facts c (H c Hc)) as F. destruct (c =? 93) eqn:E; [lia|reflexivity]. Qed.
  Lemma header_ok s : wf_header (sect_text s).
  Proof.
    unfold wf_header. destruct s as [| | | | | | |n sp|n]; cbn [sect_text]; try (split; [discriminate|reflexivity]).
    - unfold table_ws. assert (Hm : (sp mod 4 < 4)%nat) by (apply Nat.mod_upper_bound; discriminate).
      destruct (sp mod 4)%nat as [|[|[|[|?]]]]; cbn [nth]; try lia; (split; [discriminate|]); rewrite !forallb_app, label_no93; reflexivity.
    - split; [apply labels|apply label_no93].
  Qed.
  Lemma headers_ok_all f : headers_ok f.
  Proof. unfold headers_ok. apply Forall_forall. intros se _. apply header_ok. Qed.

  (* the printer puts one empty line after every section *)
  Fixpoint mark_last (os : list oline) : list oblk :=
    match os with [] => [] | o :: r => match r with [] => [(o, [[]])] | _ => (o, []) :: mark_last r end end.
  Definition add_blank (s : osec) : osec2 := (fst s, match snd s with [] => [[]] | _ => [] end, mark_last (snd s)).
  Lemma mark_last_fst os : map fst (mark_last os) = os.
  Proof. induction os as [|o r IH]; [reflexivity|]. cbn [mark_last]. destruct r as [|o' r']; [reflexivity|]. cbn [map fst]. rewrite IH. reflexivity. Qed.
  Lemma plain_add_blank l : plain (map add_blank l) = l.
  Proof. unfold plain. rewrite map_map. rewrite <- (map_id l) at 2. apply map_ext. intros [h os]. unfold add_blank. cbn [fst snd]. rewrite mark_last_fst. reflexivity. Qed.
  Lemma blanks_add_blank l : blanks_ok (map add_blank l).
  Proof.
    unfold blanks_ok. apply Forall_forall. intros s Hs. apply in_map_iff in Hs. destruct Hs as ([h os] & <- & _). unfold add_blank. cbn [fst snd]. split.
    - destruct os; [repeat constructor|constructor].
    - induction os as [|o r IH]; [constructor|]. cbn [mark_last]. destruct r as [|o' r']; [repeat constructor|]. constructor; [constructor|exact IH].
  Qed.
  Definition printed (f : rawfile val) : list (list Z) := render_file2 (map add_blank (to_osec f)).
  Theorem store_text_printed (f : rawfile val) st : values_ok f -> compat f = true -> Store.parse f = Ok st -> parse_ini (printed f) = Some (text_store f).
  Proof.
    intros Hv Hc Hp. apply (store_text_ok f (map add_blank (to_osec f)) st); [apply plain_add_blank|apply blanks_add_blank|exact Hv|apply headers_ok_all|exact Hc|exact Hp].
  Qed.
End Text.

(* malformed species keys are refused: no separator, more than one, or a species missing *)
Theorem pair_key_no_dash k : without 45 k -> pair_key k = None.
Proof. intro H. unfold pair_key. rewrite (split_first_none 45 k H). reflexivity. Qed.
Theorem pair_key_two_dashes a b c : without 45 a -> pair_key (a ++ 45 :: b ++ 45 :: c) = None.
Proof.
  intro H. unfold pair_key. rewrite (split_first_app 45 a _ H).
  assert (E : contains 45 (b ++ 45 :: c) = true) by (rewrite contains_app; cbn; apply orb_true_r). rewrite E. reflexivity.
Qed.
Theorem pair_key_missing_species a : without 45 a -> all_sp a -> forall b, pair_key (a ++ 45 :: b) = None /\ (without 45 b -> pair_key (b ++ 45 :: a) = None).
Proof.
  intros H Ha b. assert (E : strip a = []) by (unfold strip; rewrite (lstrip_all_sp _ Ha); reflexivity). split.
  - unfold pair_key. rewrite (split_first_app 45 a _ H). destruct (contains 45 b); [reflexivity|]. unfold two_species. rewrite E. reflexivity.
  - intro Hb. unfold pair_key. rewrite (split_first_app 45 b _ Hb), (contains_without _ _ H). unfold two_species. rewrite E. cbn. rewrite orb_true_r. reflexivity.
Qed.
Theorem fs_key_no_arrow k : without 45 k -> fs_key k = None.
Proof.
  intro H. unfold fs_key. assert (E : split_arrow k = None).
  { unfold without in H. induction k as [|c r IH]; [reflexivity|]. cbn [forallb] in H. apply andb_true_iff in H. destruct H as [Hc Hr].
    apply negb_true_iff in Hc. destruct r as [|d r']; [reflexivity|].
    change (split_arrow (c :: d :: r')) with (if (c =? 45) && (d =? 62) then Some ([], r') else match split_arrow (d :: r') with Some (a, b) => Some (c :: a, b) | None => None end).
    rewrite Hc. cbn [andb]. rewrite (IH Hr). reflexivity. }
  rewrite E. reflexivity.
Qed.
(* text after the closing bracket of a signature is refused (fix 9a3d831) *)
Lemma split_first_last x c l : c <> x -> forall a b, split_first x (l ++ [c]) = Some (a, b) -> exists b', b = b' ++ [c].
Proof.
  intro Hc. induction l as [|y l IH]; intros a b E; cbn [app split_first] in E.
  - destruct (c =? x) eqn:Ec; [apply Z.eqb_eq in Ec; contradiction|discriminate].
  - destruct (y =? x); [injection E as _ <-; exists l; reflexivity|].
    destruct (split_first x (l ++ [c])) as [[a' b']|] eqn:E'; [|discriminate]. injection E as _ <-. exact (IH _ _ eq_refl).
Qed.
Theorem sig_key_trailing k c : is_sp c = false -> c <> 41 -> c <> 40 -> sig_key (k ++ [c]) = None.
Proof.
  intros Hc H41 H40. unfold sig_key. assert (E : exists u, strip (k ++ [c]) = u ++ [c]).
  { unfold strip. destruct (lstrip_keeps_last k c Hc) as (t & Et). rewrite Et. exists t. apply (rstrip_app_nonsp t c [] Hc). }
  destruct E as (u & ->). destruct (split_first 40 (u ++ [c])) as [[lab rest]|] eqn:Es; [|reflexivity]. destruct (ident_word lab); [|reflexivity].
  destruct (split_first_last 40 c u H40 _ _ Es) as (r' & ->).
  rewrite rev_app_distr. cbn [rev app]. destruct (c =? 41) eqn:E; [apply Z.eqb_eq in E; contradiction|reflexivity].
Qed.
