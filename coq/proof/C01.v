(* C01: LAMMPS pair table. *)
From Coq Require Import Reals Qreals Lra.
From Coquelicot Require Import Coquelicot.
From V Require Import lib.Common lib.Layout lib.RLib gen.GridArith gen.Combinators model.PairTables model.Callable
                      proof.LayoutLemmas proof.C07Comb.

Local Open Scope Q_scope.

(* ---- the grid: r_n = n * dr, for every nr >= 3 ---- *)
Lemma inject_Z_minus a b : inject_Z (a - b) == inject_Z a - inject_Z b.
Proof. unfold Qminus. rewrite <- inject_Z_opp, <- inject_Z_plus. reflexivity. Qed.

Lemma lammps_grid cutoff nr n : (3 <= nr)%Z ->
  lammps_row_r (pair_dr cutoff nr) cutoff n (nr - 1) == inject_Z n * pair_dr cutoff nr.
Proof.
  intro H. unfold lammps_row_r, pair_dr.
  assert (H1 : ~ inject_Z (nr - 1) == 0) by (unfold inject_Z, Qeq; cbn; lia).
  assert (H2 : ~ inject_Z (nr - 1) - (1 # 1) == 0) by (unfold inject_Z, Qeq, Qminus, Qplus; cbn; lia).
  rewrite (inject_Z_minus n 1). change (inject_Z 1) with (1 # 1).
  field. split; assumption.
Qed.

Lemma lammps_grid_first cutoff nr : (3 <= nr)%Z ->
  lammps_row_r (pair_dr cutoff nr) cutoff 1 (nr - 1) == pair_dr cutoff nr.
Proof. intro H. rewrite lammps_grid by exact H. change (inject_Z 1) with (1 # 1). ring. Qed.

Lemma lammps_grid_last cutoff nr : (3 <= nr)%Z ->
  lammps_row_r (pair_dr cutoff nr) cutoff (nr - 1) (nr - 1) == cutoff.
Proof.
  intro H. rewrite lammps_grid by exact H. unfold pair_dr.
  assert (H1 : ~ inject_Z (nr - 1) == 0) by (unfold inject_Z, Qeq; cbn; lia).
  field. exact H1.
Qed.

(* nr = 2 is outside the domain: the row formula divides by N - 1 = 0 (the code raises ZeroDivisionError) *)
Lemma lammps_nr2_divides_by_zero : inject_Z (2 - 1) - (1 # 1) == 0.
Proof. reflexivity. Qed.

(* ---- structure: blocks, header, rows ---- *)
Lemma join_blocks_evs (bs : list (list item)) :
  flat_map item_evs (join_blocks [nl] bs) = flat_map (flat_map item_evs) bs.
Proof.
  induction bs as [|b bs IH]; [reflexivity|]. destruct bs as [|b' bs].
  - cbn. rewrite app_nil_r. reflexivity.
  - change (join_blocks [nl] (b :: b' :: bs)) with (b ++ [nl] ++ join_blocks [nl] (b' :: bs)).
    rewrite !evs_app, IH. reflexivity.
Qed.

Definition row_evs (i : nat) (p : pot) (r : Q) : list ev := energy_evs i r ++ force_evs i (p_hasd p) r.

Lemma lammps_row_trace i p minr maxr N n :
  flat_map item_evs (lammps_row i p minr maxr N n) = row_evs i p (lammps_row_r minr maxr n N).
Proof. unfold lammps_row, row_evs. cbn [flat_map item_evs app]. rewrite app_nil_r. reflexivity. Qed.

Lemma lammps_block_trace minr maxr N i p :
  flat_map item_evs (lammps_block minr maxr N (i, p)) =
  flat_map (fun n => row_evs i p (lammps_row_r minr maxr n N)) (zseq 1 (Z.to_nat N)).
Proof.
  unfold lammps_block. rewrite evs_app. cbn [flat_map item_evs app].
  rewrite evs_flat_map. apply flat_map_ext. intro n. apply lammps_row_trace.
Qed.

Theorem lammps_trace pots cutoff nr :
  trace (lammps_file pots cutoff nr) =
  flat_map (fun ip => flat_map (fun n => row_evs (fst ip) (snd ip) (lammps_row_r (pair_dr cutoff nr) cutoff n (nr - 1)))
                               (zseq 1 (Z.to_nat (nr - 1)))) (indexed pots).
Proof.
  rewrite trace_flat_map. unfold lammps_file. rewrite join_blocks_evs, flat_map_concat_map, map_map, <- flat_map_concat_map.
  apply flat_map_ext. intros [i p]. apply lammps_block_trace.
Qed.

(* ---- the force cell is Potential.force: minus the gradient of the same energy callable at the same r ---- *)
Local Open Scope R_scope.
Definition sem_scale (s : scale) (v a : nat -> R) (j : nat) : R :=
  match s with
  | SPlain => v j
  | STimesArg => v j * a j
  | SNeg => - v j
  | SNegNum => - ((v j - v (S j)) / (a j - a (S j)))
  | SArgNeg => a j * (- v j)
  | SArgNegNum jr => a jr * (- ((v j - v (S j)) / (a j - a (S j))))
  | SFuncfl => sqrt (v j * a j * 1 / (272 / 10) * 1 / (529 / 1000))
  end.

(* result of performing an evaluation on a callable *)
Definition perform (c : callable) (e : ev) : R :=
  match e_kind e with
  | KCall => cf c (Q2R (e_arg e))
  | KDeriv => match cd c with Some d => d (Q2R (e_arg e)) | None => 0 end
  end.

Lemma force_cell_is_force (c : callable) (i : nat) (r : Q) :
  let evs := force_evs i (has_d c) r in
  let v := fun j => perform c (nth j evs (mkev (FPair i) KCall 0)) in
  let a := fun j => Q2R (e_arg (nth j evs (mkev (FPair i) KCall 0))) in
  sem_scale (if has_d c then SNeg else SNegNum) v a 0 = force (Q2R force_h) c (Q2R r).
Proof.
  unfold force_evs, has_d, force, gradient_h. cbn [cf]. destruct (cd c) as [d|] eqn:Hd; cbn [sem_scale nth perform e_kind e_arg].
  - rewrite Hd. reflexivity.
  - unfold num_deriv. cbv zeta. rewrite !Q2R_plus, !Q2R_minus, !Q2R_div by (intro H; discriminate H).
    replace (Q2R 2) with 2 by (unfold Q2R; cbn; lra). reflexivity.
Qed.
