(* C19: GULP, ADP, funcfl and Excel targets. *)
From Coq Require Import Reals Qreals Lra.
From V Require Import lib.Common lib.Layout lib.Sorting gen.GridArith model.PairTables model.EamTables model.ExcelTables
                      proof.LayoutLemmas proof.C01 proof.C03.
Local Open Scope Q_scope.

(* GULP / Excel row positions: r_i = i * cutoff/(nr-1) *)
Lemma r_value_grid cutoff nr n : (2 <= nr)%Z -> r_value cutoff nr n == inject_Z n * pair_dr cutoff nr.
Proof.
  intro H. unfold r_value, pair_dr.
  assert (H1 : ~ inject_Z nr - (1 # 1) == 0) by (unfold inject_Z, Qeq, Qminus, Qplus; cbn; lia).
  rewrite (inject_Z_minus nr 1). change (inject_Z 1) with (1 # 1). field. exact H1.
Qed.
Lemma rho_value_grid cutoff_rho nrho n : (2 <= nrho)%Z -> rho_value cutoff_rho nrho n == inject_Z n * eam_drho cutoff_rho nrho.
Proof.
  intro H. unfold rho_value, eam_drho.
  assert (H1 : ~ inject_Z nrho - (1 # 1) == 0) by (unfold inject_Z, Qeq, Qminus, Qplus; cbn; lia).
  rewrite (inject_Z_minus nrho 1). change (inject_Z 1) with (1 # 1). field. exact H1.
Qed.

Lemma rows_trace {A} (f : A -> list item) (g : A -> ev) (l : list A) :
  (forall x, flat_map item_evs (f x) = [g x]) -> flat_map item_evs (flat_map f l) = map g l.
Proof.
  intro H. rewrite evs_flat_map. induction l as [|x l IH]; [reflexivity|]. cbn [flat_map map]. rewrite H, IH. reflexivity.
Qed.
Lemma gulp_block_trace cutoff nr i p :
  flat_map item_evs (gulp_block cutoff nr (i, p)) = map (fun n => mkev (FPair i) KCall (r_value cutoff nr n)) (zseq 0 (Z.to_nat nr)).
Proof.
  unfold gulp_block. rewrite evs_app. cbn [flat_map item_evs app].
  apply (rows_trace _ (fun n => mkev (FPair i) KCall (r_value cutoff nr n))). intro n. reflexivity.
Qed.

(* funcfl: the effective-charge column squared and converted back returns the pair potential *)
Local Open Scope R_scope.
Lemma funcfl_roundtrip (phi r : R) : 0 < r -> 0 <= phi * r ->
  (sqrt (phi * r * 1 / (272 / 10) * 1 / (529 / 1000))) ^ 2 * (272 / 10) * (529 / 1000) / r = phi.
Proof.
  intros Hr Hp.
  assert (Hx : 0 <= phi * r * 1 / (272 / 10) * 1 / (529 / 1000)).
  { assert (H1 : 0 < / (272 / 10)) by (apply Rinv_0_lt_compat; lra).
    assert (H2 : 0 < / (529 / 1000)) by (apply Rinv_0_lt_compat; lra).
    unfold Rdiv. apply Rmult_le_pos; [|lra]. apply Rmult_le_pos; [|lra]. apply Rmult_le_pos; [|lra]. apply Rmult_le_pos; lra. }
  replace (sqrt (phi * r * 1 / (272 / 10) * 1 / (529 / 1000)) ^ 2) with (phi * r * 1 / (272 / 10) * 1 / (529 / 1000)).
  - field. lra.
  - rewrite <- Rsqr_pow2, Rsqr_sqrt by exact Hx. reflexivity.
Qed.

