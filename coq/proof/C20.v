(* C20: each interaction / form is defined at most once; duplicates are rejected. *)
From V Require Import lib.Common model.Store model.Duplicates.
Local Open Scope nat_scope.

Definition unordered (p : label * label) : label * label := (Nat.min (fst p) (snd p), Nat.max (fst p) (snd p)).

Lemma pair_mem_In p l : pair_mem p l = true <-> In p l.
Proof.
  unfold pair_mem. rewrite existsb_exists. split.
  - intros ([a b] & Hin & E). apply andb_true_iff in E. destruct E as [E1 E2]. apply Nat.eqb_eq in E1. apply Nat.eqb_eq in E2.
    destruct p as [c d]. cbn in *. subst. exact Hin.
  - intro H. exists p. split; [exact H|]. rewrite !Nat.eqb_refl. reflexivity.
Qed.

Lemma unordered_eq a b c d : unordered (a, b) = unordered (c, d) <-> (a = c /\ b = d) \/ (a = d /\ b = c).
Proof. unfold unordered. cbn. split; [intros [= H1 H2]; lia|intros [[-> ->]|[-> ->]]; f_equal; lia]. Qed.

(* if the check passes, no unordered pair occurs twice (and none is already in `seen`) *)
Lemma check_pairs_nodup ks : forall seen, check_pairs ks seen = true ->
  NoDup (map unordered ks) /\ (forall p, In p ks -> forall q, In q seen -> unordered p <> unordered q).
Proof.
  induction ks as [|[a b] ks IH]; intros seen H; cbn [check_pairs] in H.
  - split; [constructor|]. intros p [].
  - destruct (pair_mem (a, b) seen || pair_mem (b, a) seen) eqn:E; [discriminate|].
    apply orb_false_iff in E. destruct E as [E1 E2].
    destruct (IH _ H) as [N D]. split.
    + cbn [map]. constructor; [|exact N]. intro Hin. apply in_map_iff in Hin. destruct Hin as (p & Hp & Hi).
      apply (D p Hi (a, b)); [left; reflexivity|exact Hp].
    + intros p [<-|Hp] q Hq Heq.
      * destruct q as [c d]. apply unordered_eq in Heq. destruct Heq as [[-> ->]|[-> ->]].
        -- apply pair_mem_In in Hq. congruence.
        -- apply pair_mem_In in Hq. congruence.
      * apply (D p Hp q); [right; exact Hq|exact Heq].
Qed.

Theorem pairs_once ks : check_pairs ks [] = true -> NoDup (map unordered ks).
Proof. intro H. apply (check_pairs_nodup ks [] H). Qed.

(* conversely a second definition of the same pair, in either order, is rejected *)
Theorem pairs_reject ks1 ks2 ks3 a b c d :
  unordered (a, b) = unordered (c, d) -> check_pairs (ks1 ++ (a, b) :: ks2 ++ (c, d) :: ks3) [] = false.
Proof.
  intro Heq. destruct (check_pairs (ks1 ++ (a, b) :: ks2 ++ (c, d) :: ks3) []) eqn:E; [|reflexivity].
  apply pairs_once in E. rewrite map_app in E. cbn [map] in E. rewrite map_app in E. cbn [map] in E.
  apply NoDup_remove_2 in E. exfalso. apply E. rewrite Heq. apply in_or_app. right. apply in_or_app. right. left. reflexivity.
Qed.

(* labels *)
Lemma mem_In x l : mem x l = true <-> In x l.
Proof.
  unfold mem. rewrite existsb_exists. split; [intros (y & Hy & E); apply Nat.eqb_eq in E; subst; exact Hy|intro H; exists x; split; [exact H|apply Nat.eqb_refl]].
Qed.
Lemma nodupb_NoDup l : nodupb l = true -> NoDup l.
Proof.
  induction l as [|x l IH]; intro H; [constructor|]. cbn in H. apply andb_true_iff in H. destruct H as [H1 H2].
  constructor; [|apply IH, H2]. intro Hin. apply mem_In in Hin. rewrite Hin in H1. discriminate.
Qed.
Lemma check_forms_spec forms : forall taken, check_forms forms taken = true ->
  NoDup forms /\ (forall f, In f forms -> ~ In f taken).
Proof.
  induction forms as [|f forms IH]; intros taken H; cbn [check_forms] in H.
  - split; [constructor|intros ? []].
  - destruct (mem f taken) eqn:E; [discriminate|]. destruct (IH _ H) as [N D]. split.
    + constructor; [|exact N]. intro Hin. apply (D f Hin). left. reflexivity.
    + intros g [<-|Hg] Ht; [apply mem_In in Ht; congruence|]. apply (D g Hg). right. exact Ht.
Qed.

Lemma nodup_app_disjoint (l1 l2 : list label) : NoDup l1 -> NoDup l2 -> (forall x, In x l2 -> ~ In x l1) -> NoDup (l1 ++ l2).
Proof.
  induction l1 as [|a l1 IH]; intros H1 H2 D; [exact H2|]. cbn. inversion H1; subst. constructor.
  - rewrite in_app_iff. intros [H|H]; [contradiction|]. apply (D a H). left. reflexivity.
  - apply IH; [assumption|assumption|]. intros x Hx Hin. apply (D x Hx). right. exact Hin.
Qed.

Section C20.
  Variable V : Type.

  (* strict parse: within a section every (normalised) key occurs once; section headers occur once *)
  Lemma has_key_In k (es : list (key * V)) : has_key k es = true <-> exists v, In (k, v) es.
  Proof.
    unfold has_key. rewrite existsb_exists. split.
    - intros ([k0 v] & Hin & E). apply key_eqb_eq in E. cbn in E. subst. exists v. exact Hin.
    - intros (v & Hin). exists (k, v). split; [exact Hin|apply key_eqb_eq; reflexivity].
  Qed.
  Lemma nodup_keys_NoDup (es : list (key * V)) : nodup_keys es = true -> NoDup (map fst es).
  Proof.
    induction es as [|[k v] es IH]; intro H; [constructor|].
    change (nodup_keys ((k, v) :: es)) with (negb (has_key k es) && nodup_keys es) in H.
    apply andb_true_iff in H. destruct H as [H1 H2]. cbn [map fst]. constructor; [|apply IH, H2].
    intro Hin. apply in_map_iff in Hin. destruct Hin as ([k0 v0] & E & Hin). cbn in E. subst.
    apply negb_true_iff in H1. assert (has_key k es = true) by (apply has_key_In; exists v0; exact Hin). congruence.
  Qed.

  Theorem parse_keys_once (f : rawfile V) st s es : parse f = Ok st -> In (s, es) st -> NoDup (map fst es).
  Proof.
    unfold parse. intros H Hin. destruct (nodup_sects (forget f) && forallb (fun se => nodup_keys (snd se)) (forget f)) eqn:E; [|discriminate].
    injection H as <-. apply andb_true_iff in E. destruct E as [_ E]. rewrite forallb_forall in E. apply nodup_keys_NoDup. apply (E (s, es) Hin).
  Qed.

  (* two lines of one section whose keys differ only in whitespace (same structure, any spellings) are rejected *)
  Theorem whitespace_variant_rejected (f1 f2 : rawfile V) s es1 es2 es3 k sp1 sp2 v1 v2 :
    parse (f1 ++ (s, es1 ++ mkentry k sp1 v1 :: es2 ++ mkentry k sp2 v2 :: es3) :: f2) = CfgErr.
  Proof.
    unfold parse. destruct (nodup_sects _ && forallb _ _) eqn:E; [|reflexivity]. exfalso.
    apply andb_true_iff in E. destruct E as [_ E]. rewrite forallb_forall in E.
    specialize (E (s, map (forget_entry V) (es1 ++ mkentry k sp1 v1 :: es2 ++ mkentry k sp2 v2 :: es3))).
    assert (Hin : In (s, map (forget_entry V) (es1 ++ mkentry k sp1 v1 :: es2 ++ mkentry k sp2 v2 :: es3))
                     (forget (f1 ++ (s, es1 ++ mkentry k sp1 v1 :: es2 ++ mkentry k sp2 v2 :: es3) :: f2))).
    { unfold forget. apply in_map_iff. eexists. split; [|apply in_or_app; right; left; reflexivity]. reflexivity. }
    specialize (E Hin). cbn [snd] in E. apply nodup_keys_NoDup in E.
    rewrite map_map, map_app in E. cbn [map] in E. rewrite map_app in E. cbn [map] in E.
    apply NoDup_remove_2 in E. apply E. apply in_or_app. right. apply in_or_app. right. left. reflexivity.
  Qed.

  (* accepted file: every pair interaction, every form label (formula or table form) is bound once *)
  Theorem accept_unique builtin (f : rawfile V) : accept builtin f = true ->
    exists st, parse f = Ok st /\ NoDup (map unordered (pair_keys st)) /\ NoDup (table_names st ++ form_labels st)
               /\ (forall t, In t (table_names st ++ form_labels st) -> ~ In t builtin).
  Proof.
    unfold accept. destruct (parse f) as [st| |] eqn:P; try discriminate. intro H.
    apply andb_true_iff in H. destruct H as [H H4]. apply andb_true_iff in H. destruct H as [H H3]. apply andb_true_iff in H. destruct H as [H1 H2].
    exists st. split; [reflexivity|]. split; [apply pairs_once, H1|].
    destruct (check_forms_spec _ _ H4) as [N D]. split.
    - apply nodup_app_disjoint; [apply nodupb_NoDup, H2|exact N|]. intros x Hx Ht. apply (D x Hx). apply in_or_app. left. exact Ht.
    - intros t Ht Hb. apply in_app_or in Ht. destruct Ht as [Ht|Ht].
      + rewrite forallb_forall in H3. specialize (H3 t Ht). apply negb_true_iff in H3. apply mem_In in Hb. congruence.
      + apply (D t Ht). apply in_or_app. right. exact Hb.
  Qed.
End C20.
