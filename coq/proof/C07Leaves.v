(* C07, leaves: every offered deriv / deriv2 of the built-in forms is the derivative of the generated
   __call__ / deriv, for all r in the domain and all parameters.  (Floats are modelled as reals.) *)
From Coq Require Import Reals Lra List.
From Coquelicot Require Import Coquelicot.
From Interval Require Import Tactic.
From V Require Import lib.RLib lib.RTactics gen.PotFuncs spec.Forms.
Import ListNotations.
Local Open Scope R_scope.

(* ---------------- Buckingham, Born-Mayer ---------------- *)
Lemma buck_d r A rho C : r <> 0 -> rho <> 0 -> is_derive (fun x => buck_call x A rho C) r (buck_deriv r A rho C).
Proof. intros Hr Hrho. unfold buck_call, buck_deriv. auto_derive; [dside|unfold Rdiv; field; split; assumption]. Qed.
Lemma buck_d2 r A rho C : r <> 0 -> rho <> 0 -> is_derive (fun x => buck_deriv x A rho C) r (buck_deriv2 r A rho C).
Proof. intros Hr Hrho. unfold buck_deriv, buck_deriv2. auto_derive; [dside|unfold Rdiv; field; split; assumption]. Qed.
Lemma bornmayer_d r A rho : r <> 0 -> rho <> 0 -> is_derive (fun x => bornmayer_call x A rho) r (bornmayer_deriv r A rho).
Proof. intros. unfold bornmayer_call, bornmayer_deriv. apply buck_d; assumption. Qed.
Lemma bornmayer_d2 r A rho : r <> 0 -> rho <> 0 -> is_derive (fun x => bornmayer_deriv x A rho) r (bornmayer_deriv2 r A rho).
Proof. intros. unfold bornmayer_deriv, bornmayer_deriv2. apply buck_d2; assumption. Qed.

(* ---------------- constant, zero ---------------- *)
Lemma constant_d r c : is_derive (fun x => constant_call x c) r (constant_deriv r c).
Proof. unfold constant_call, constant_deriv. auto_derive; [exact I|ring]. Qed.
Lemma constant_d2 r c : is_derive (fun x => constant_deriv x c) r (constant_deriv2 r c).
Proof. unfold constant_deriv2, constant_deriv. auto_derive; [exact I|ring]. Qed.
Lemma zero_d r : is_derive zero_call r (zero_deriv r).
Proof. unfold zero_call, zero_deriv. auto_derive; [exact I|ring]. Qed.
Lemma zero_d2 r : is_derive zero_deriv r (zero_deriv2 r).
Proof. unfold zero_deriv2, zero_deriv. auto_derive; [exact I|ring]. Qed.

(* ---------------- Coulomb: exact for the ideal constant 1/(4 eps0); literal within 1e-13 ---------------- *)
Definition coul_K : R := 1 / (4 * eps0).
Lemma coul_d r qi qj : r <> 0 -> is_derive (fun x => coul_call x qi qj) r (coul_deriv_K coul_K r qi qj).
Proof.
  intros Hr. unfold coul_call, coul_deriv_K, coul_K, eps0. pose proof PI_neq0 as Hpi.
  auto_derive; [dside|unfold Rdiv; field; split; assumption].
Qed.
Lemma coul_d2 r qi qj : r <> 0 -> is_derive (fun x => coul_deriv_K coul_K x qi qj) r (coul_deriv2_K (2 * coul_K) r qi qj).
Proof.
  intros Hr. unfold coul_deriv2_K, coul_deriv_K, coul_K, eps0. pose proof PI_neq0 as Hpi.
  auto_derive; [dside|unfold Rdiv; field; split; assumption].
Qed.
Lemma coul_constants : Forall2 lit_close coul_deriv_lits [coul_K] /\ Forall2 lit_close coul_deriv2_lits [2 * coul_K].
Proof. unfold coul_deriv_lits, coul_deriv2_lits, lit_close, coul_K, eps0. split; repeat constructor; interval with (i_prec 100). Qed.
(* the two combined: the offered derivative is within 1e-13 (relative) of the true derivative *)
Lemma coul_d_close r qi qj : r <> 0 ->
  exists d, is_derive (fun x => coul_call x qi qj) r d /\ Rabs (coul_deriv r qi qj - d) <= Rabs d / 10 ^ 13.
Proof.
  intros Hr. exists (coul_deriv_K coul_K r qi qj). split; [apply coul_d, Hr|].
  destruct coul_constants as [H _]. inversion H as [|? ? ? ? Hc _]; subst. unfold lit_close in Hc.
  unfold coul_deriv, coul_deriv_K. set (L := 452374059061957 / 10000000000000) in *.
  replace (- L * qi * qj / (PI * r ^ 2) - - coul_K * qi * qj / (PI * r ^ 2)) with (- (L - coul_K) * (qi * qj / (PI * r ^ 2)))
    by (field; split; [exact Hr|apply PI_neq0]).
  replace (- coul_K * qi * qj / (PI * r ^ 2)) with (- coul_K * (qi * qj / (PI * r ^ 2))) by (field; split; [exact Hr|apply PI_neq0]).
  set (X := qi * qj / (PI * r ^ 2)).
  rewrite !Rabs_mult, !Rabs_Ropp. pose proof (Rabs_pos X) as HX.
  apply Rle_trans with (Rabs coul_K / 10 ^ 13 * Rabs X); [apply Rmult_le_compat_r; assumption|right; unfold Rdiv; ring].
Qed.

(* ---------------- exponential A r^n (real exponent, r > 0) ---------------- *)
Lemma Rpower_pred r n : 0 < r -> Rpower r (n - 1) = Rpower r n / r.
Proof. intro Hr. unfold Rminus. rewrite Rpower_plus, Rpower_Ropp, Rpower_1 by exact Hr. reflexivity. Qed.
Lemma exponential_d r A n : 0 < r -> is_derive (fun x => exponential_call x A n) r (exponential_deriv r A n).
Proof.
  intros Hr. unfold exponential_call, exponential_deriv. rewrite Rpower_pred by exact Hr. unfold Rpower.
  auto_derive; [exact Hr|field; lra].
Qed.
Lemma exponential_d2 r A n : 0 < r -> is_derive (fun x => exponential_deriv x A n) r (exponential_deriv2 r A n).
Proof.
  intros Hr. unfold exponential_deriv, exponential_deriv2.
  replace (n - 2) with ((n - 1) - 1) by ring. rewrite (Rpower_pred r (n - 1)) by exact Hr. unfold Rpower.
  auto_derive; [exact Hr|field; lra].
Qed.

(* ---------------- hbnd, lj ---------------- *)
Lemma hbnd_d r A B : r <> 0 -> is_derive (fun x => hbnd_call x A B) r (hbnd_deriv r A B).
Proof. intros Hr. unfold hbnd_call, hbnd_deriv. auto_derive; [dside|field; exact Hr]. Qed.
Lemma hbnd_d2 r A B : r <> 0 -> is_derive (fun x => hbnd_deriv x A B) r (hbnd_deriv2 r A B).
Proof. intros Hr. unfold hbnd_deriv2, hbnd_deriv. auto_derive; [dside|field; exact Hr]. Qed.
Lemma lj_d r e s : r <> 0 -> is_derive (fun x => lj_call x e s) r (lj_deriv r e s).
Proof. intros Hr. unfold lj_call, lj_deriv. auto_derive; [dside|field; exact Hr]. Qed.
Lemma lj_d2 r e s : r <> 0 -> is_derive (fun x => lj_deriv x e s) r (lj_deriv2 r e s).
Proof. intros Hr. unfold lj_deriv2, lj_deriv. auto_derive; [dside|field; exact Hr]. Qed.

(* ---------------- Morse ---------------- *)
Lemma morse_d r g rs D : is_derive (fun x => morse_call x g rs D) r (morse_deriv r g rs D).
Proof. unfold morse_call, morse_deriv. auto_derive; [exact I|unfold Rminus; ring]. Qed.
Lemma morse_d2 r g rs D : is_derive (fun x => morse_deriv x g rs D) r (morse_deriv2 r g rs D).
Proof. unfold morse_deriv2, morse_deriv. auto_derive; [exact I|unfold Rminus; ring]. Qed.

(* ---------------- square root (r > 0) ---------------- *)
Lemma sqrt_d r G : 0 < r -> is_derive (fun x => sqrt_call x G) r (sqrt_deriv r G).
Proof.
  intros Hr. unfold sqrt_call, sqrt_deriv. auto_derive; [exact Hr|].
  field. apply Rgt_not_eq, sqrt_lt_R0, Hr.
Qed.
Lemma Rpower_3_2 r : 0 < r -> Rpower r (3 / 2) = r * sqrt r.
Proof.
  intro Hr. replace (3 / 2) with (1 + / 2) by field. rewrite Rpower_plus, Rpower_1 by exact Hr.
  rewrite Rpower_sqrt by exact Hr. reflexivity.
Qed.
Lemma sqrt_d2 r G : 0 < r -> is_derive (fun x => sqrt_deriv x G) r (sqrt_deriv2 r G).
Proof.
  intros Hr. unfold sqrt_deriv2, sqrt_deriv. rewrite Rpower_3_2 by exact Hr.
  assert (Hs : 0 < sqrt r) by (apply sqrt_lt_R0, Hr).
  auto_derive; [split; [exact Hr|split; [apply Rgt_not_eq, Hs|exact I]]|].
  assert (Hq : sqrt r * sqrt r = r) by (apply sqrt_sqrt; lra).
  field_simplify; try lra. rewrite ?Hq. 
  replace (sqrt r ^ 3) with (sqrt r * sqrt r * sqrt r) by ring. rewrite Hq. field. split; lra.
Qed.

(* ---------------- exponential spline ---------------- *)
Lemma exp_spline_d r B0 B1 B2 B3 B4 B5 C :
  is_derive (fun x => exp_spline_call x B0 B1 B2 B3 B4 B5 C) r (exp_spline_deriv r B0 B1 B2 B3 B4 B5 C).
Proof.
  unfold exp_spline_call, exp_spline_deriv. auto_derive; [exact I|].
  exp_eq. ring.
Qed.
Lemma exp_spline_d2 r B0 B1 B2 B3 B4 B5 C :
  is_derive (fun x => exp_spline_deriv x B0 B1 B2 B3 B4 B5 C) r (exp_spline_deriv2 r B0 B1 B2 B3 B4 B5 C).
Proof.
  unfold exp_spline_deriv2, exp_spline_deriv. auto_derive; [exact I|].
  exp_eq. ring.
Qed.

(* ---------------- polynomial of any order ---------------- *)
Lemma isum_aux_derive (r : R) : forall coefs i,
  is_derive (fun x => isum_aux (fun i c => x ^ i * c) i coefs) r (isum_aux (fun i c => INR i * r ^ (i - 1) * c) i coefs).
Proof.
  induction coefs as [|c cs IH]; intro i; cbn [isum_aux].
  - auto_derive; [exact I|ring].
  - apply (is_derive_plus (fun x => x ^ i * c) (fun x => isum_aux (fun i c => x ^ i * c) (S i) cs)); [|apply IH].
    auto_derive; [exact I|]. destruct i as [|i]; cbn [INR pred Nat.sub]; [ring|]. rewrite Nat.sub_0_r. ring.
Qed.
Lemma isum_drop_zero (f : nat -> R -> R) c cs : f 0%nat c = 0 -> isum_aux f 0 (c :: cs) = isum 1 f (c :: cs).
Proof. intro H. unfold isum. cbn [skipn isum_aux]. rewrite H. ring. Qed.
Lemma polynomial_d r coefs : is_derive (fun x => polynomial_call x coefs) r (polynomial_deriv r coefs).
Proof.
  unfold polynomial_call, polynomial_deriv. destruct coefs as [|c cs].
  - unfold isum; cbn. auto_derive; [exact I|ring].
  - rewrite <- isum_drop_zero by (cbn; ring). unfold isum at 1. cbn [skipn]. apply isum_aux_derive.
Qed.
Lemma isum_aux_derive2 (r : R) : forall coefs i,
  is_derive (fun x => isum_aux (fun i c => INR i * x ^ (i - 1) * c) i coefs) r
            (isum_aux (fun i c => INR i * INR (i - 1) * r ^ (i - 2) * c) i coefs).
Proof.
  induction coefs as [|c cs IH]; intro i; cbn [isum_aux].
  - auto_derive; [exact I|ring].
  - apply (is_derive_plus (fun x => INR i * x ^ (i - 1) * c) (fun x => isum_aux (fun i c => INR i * x ^ (i - 1) * c) (S i) cs)); [|apply IH].
    auto_derive; [exact I|]. destruct i as [|[|i]]; cbn [INR pred Nat.sub]; try ring.
    rewrite !Nat.sub_0_r. destruct i; cbn [INR Nat.sub pred]; ring.
Qed.
Lemma polynomial_d2 r coefs : is_derive (fun x => polynomial_deriv x coefs) r (polynomial_deriv2 r coefs).
Proof.
  unfold polynomial_deriv, polynomial_deriv2. destruct coefs as [|c0 [|c1 cs]].
  - unfold isum; cbn. auto_derive; [exact I|ring].
  - unfold isum; cbn. auto_derive; [exact I|ring].
  - unfold isum. cbn [skipn].
    pose proof (isum_aux_derive2 r (c1 :: cs) 1) as H. cbn [isum_aux] in H.
    match type of H with is_derive _ _ (?t + ?u) => replace (t + u) with u in H by (cbn [INR Nat.sub]; ring) end.
    exact H.
Qed.
