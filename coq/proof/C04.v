(* C04: Finnis-Sinclair densities land in the slot the consumer reads for that pair. *)
From V Require Import lib.Common lib.Layout lib.Sorting gen.GridArith model.PairTables model.EamTables model.ExcelTables
                      spec.Consumers proof.LayoutLemmas proof.C03 proof.C05.
Local Open Scope Z_scope.

(* the density arrays written into element ix's block are exactly setfl_fs_block *)
Lemma setfl_fs_density_trace nels ix nr dr :
  flat_map item_evs (setfl_density true nels ix nr dr) =
  flat_map (fun fn => map (fun i => mkev fn KCall (setfl_sample i dr)) (zseq 0 (Z.to_nat nr))) (setfl_fs_block nels ix).
Proof.
  unfold setfl_density, setfl_fs_block. rewrite evs_flat_map. generalize (seq 0 nels). intro l.
  induction l as [|o l IH]; [reflexivity|]. cbn [flat_map map]. rewrite column_trace, IH. reflexivity.
Qed.

Lemma lammps_reads_declared nels alpha beta : (alpha < nels)%nat ->
  consumer_lammps (setfl_fs_block nels) alpha beta = Some (declared_density alpha beta).
Proof.
  intro H. unfold consumer_lammps, setfl_fs_block, declared_density.
  rewrite nth_error_map, nth_error_nth' with (d := O) by (rewrite seq_length; exact H).
  rewrite seq_nth by exact H. reflexivity.
Qed.

(* a transposed layout would NOT satisfy the statement (the Al/Fe test model, whose two cross densities are the
   same function, could not tell) *)
Lemma lammps_transposed_differs :
  consumer_lammps (fun b => map (fun o => FDensFS b o) (seq 0 2)) 0 1 <> Some (declared_density 0 1).
Proof. cbn. intro H. discriminate H. Qed.

(* TABEAM EEAM: the labelled dens blocks *)
Definition tabeam_fs_labelled (nels : nat) : list ((nat * nat) * fnid) :=
  flat_map (fun a => map (fun b => ((a, b), FDensFS a b)) (seq 0 nels)) (seq 0 nels).

Lemma labelled_reads_declared nels alpha beta : (alpha < nels)%nat -> (beta < nels)%nat ->
  consumer_labelled (tabeam_fs_labelled nels) alpha beta = Some (declared_density alpha beta).
Proof.
  intros Ha Hb. unfold consumer_labelled, tabeam_fs_labelled, declared_density.
  assert (G : forall l, In alpha l -> NoDup l ->
     find (fun e : nat * nat * fnid => Nat.eqb (fst (fst e)) alpha && Nat.eqb (snd (fst e)) beta)
          (flat_map (fun a => map (fun b => ((a, b), FDensFS a b)) (seq 0 nels)) l) = Some ((alpha, beta), FDensFS alpha beta)).
  { induction l as [|a l IH]; intros Hin Hnd; [destruct Hin|]. cbn [flat_map]. inversion Hnd; subst.
    destruct (Nat.eq_dec a alpha) as [->|Hne].
    - clear IH. assert (G2 : forall m, In beta m -> NoDup m -> forall rest,
         find (fun e : nat * nat * fnid => Nat.eqb (fst (fst e)) alpha && Nat.eqb (snd (fst e)) beta)
              (map (fun b => ((alpha, b), FDensFS alpha b)) m ++ rest) = Some ((alpha, beta), FDensFS alpha beta)).
      { induction m as [|b m IHm]; intros Hinb Hndb rest; [destruct Hinb|]. cbn [map app find fst snd]. rewrite Nat.eqb_refl. cbn [andb].
        destruct (Nat.eqb b beta) eqn:E; [apply Nat.eqb_eq in E; subst; reflexivity|].
        inversion Hndb; subst. apply IHm; [|assumption]. destruct Hinb as [->|Hx]; [rewrite Nat.eqb_refl in E; discriminate|exact Hx]. }
      apply G2; [apply in_seq; lia|apply seq_NoDup].
    - destruct Hin as [->|Hin]; [contradiction|].
      assert (G3 : forall m rest, find (fun e : nat * nat * fnid => Nat.eqb (fst (fst e)) alpha && Nat.eqb (snd (fst e)) beta)
              (map (fun b => ((a, b), FDensFS a b)) m ++ rest) =
              find (fun e : nat * nat * fnid => Nat.eqb (fst (fst e)) alpha && Nat.eqb (snd (fst e)) beta) rest).
      { induction m as [|b m IHm]; intro rest; [reflexivity|]. cbn [map app find fst snd].
        replace (Nat.eqb a alpha) with false by (symmetry; apply Nat.eqb_neq; exact Hne). cbn [andb]. apply IHm. }
      rewrite G3. apply IH; assumption. }
  rewrite G; [reflexivity|apply in_seq; lia|apply seq_NoDup].
Qed.

(* the embedding density of every atom of a cluster: by the consumer's rule from the file = from the model *)
Local Open Scope Q_scope.
Definition atom_density (lookup : nat -> nat -> option fnid) (value : fnid -> Q -> Q)
                        (site : nat) (neighbours : list (nat * Q)) : Q :=
  fold_left (fun acc nb => acc + match lookup site (fst nb) with Some fn => value fn (snd nb) | None => 0 end) neighbours 0.

Lemma cluster_density_equal lookup value site neighbours :
  (forall beta, In beta (map fst neighbours) -> lookup site beta = Some (declared_density site beta)) ->
  atom_density lookup value site neighbours = atom_density (fun a b => Some (declared_density a b)) value site neighbours.
Proof.
  intros H. unfold atom_density.
  assert (G : forall l acc, (forall beta, In beta (map fst l) -> lookup site beta = Some (declared_density site beta)) ->
     fold_left (fun acc nb => acc + match lookup site (fst nb) with Some fn => value fn (snd nb) | None => 0 end) l acc =
     fold_left (fun acc nb => acc + match Some (declared_density site (fst nb)) with Some fn => value fn (snd nb) | None => 0 end) l acc).
  { induction l as [|nb l IH]; intros acc Hl; [reflexivity|]. cbn [fold_left].
    rewrite (Hl (fst nb)) by (left; reflexivity). apply IH. intros b Hb. apply Hl. right. exact Hb. }
  apply G. exact H.
Qed.
