(* Whole files with blank lines: whitespace-only lines after a header or after an option (and its continuation lines) change
   nothing -- configparser appends them to the value as empty lines and strips them again when the value is joined. *)
From Coq Require Import ZArith List Bool Lia ZifyBool.
From V Require Import lib.Common model.Ini proof.IniProofs proof.IniFile.
Import ListNotations.
Local Open Scope Z_scope.

Lemma blank_step l : all_sp l -> is_comment l = false /\ strip l = [].
Proof.
  intro H. assert (E : strip l = []) by (unfold strip; rewrite (lstrip_all_sp _ H); reflexivity). split; [|exact E].
  unfold is_comment. rewrite E. reflexivity.
Qed.
Lemma blanks_noopt (ss : list sect) c i b bl : Forall all_sp bl -> run (mk ss c None i b) bl = Go (mk ss c None i b).
Proof.
  induction 1 as [|l bl Hl _ IH]; [reflexivity|]. cbn [run]. destruct (blank_step l Hl) as [C E]. unfold step. rewrite C, E. cbn [cur opt].
  destruct c; exact IH.
Qed.
Definition add_blanks (n k : list Z) (bl : list (list Z)) (ss : list sect) : list sect :=
  fold_left (fun ss (_ : list Z) => upd_sect n (app_line k []) ss) bl ss.
Lemma blanks_opt n k bl : forall (ss : list sect) i b, Forall all_sp bl ->
  run (mk ss (Some n) (Some k) i b) bl = Go (mk (add_blanks n k bl ss) (Some n) (Some k) i b).
Proof.
  induction bl as [|l bl IH]; intros ss i b H; [reflexivity|]. inversion H as [|? ? Hl H']; subst. cbn [run].
  destruct (blank_step l Hl) as [C E]. unfold step. rewrite C, E. cbn [cur opt secs ind bad]. rewrite (IH _ _ _ H'). reflexivity.
Qed.
Lemma add_blanks_last (done : list sect) h k (os : list optlines) v bl : has_sect h done = false -> has_opt k os = false ->
  add_blanks h k bl (done ++ [(h, os ++ [(k, v)])]) = done ++ [(h, os ++ [(k, v ++ repeat [] (length bl))])].
Proof.
  intros Hh Hk. revert v. induction bl as [|l bl IH]; intro v; [cbn; rewrite app_nil_r; reflexivity|].
  unfold add_blanks in *. cbn [fold_left length repeat]. rewrite (upd_sect_last _ _ _ _ Hh), (app_line_lines _ _ _ _ Hk), IH.
  rewrite <- app_assoc. reflexivity.
Qed.
Lemma join_nl_snoc_blank' ls : forall l, join_nl ((l :: ls) ++ [[]]) = join_nl (l :: ls) ++ [10].
Proof.
  induction ls as [|m ls IH]; intro l; [reflexivity|].
  change (((l :: m :: ls) ++ [[]])) with (l :: m :: ls ++ [[]]). change (join_nl (l :: m :: ls ++ [[]])) with (l ++ 10 :: join_nl (m :: ls ++ [[]])).
  change (m :: ls ++ [[]]) with ((m :: ls) ++ [[]]). rewrite IH. change (join_nl (l :: m :: ls)) with (l ++ 10 :: join_nl (m :: ls)).
  rewrite <- app_assoc. reflexivity.
Qed.
Lemma join_nl_snoc_blank ls : ls <> [] -> join_nl (ls ++ [[]]) = join_nl ls ++ [10].
Proof. destruct ls as [|l ls]; [contradiction|]. intros _. apply join_nl_snoc_blank'. Qed.
Lemma final_value_blanks ls n : ls <> [] -> final_value (ls ++ repeat [] n) = final_value ls.
Proof.
  intro H. induction n as [|n IH]; [rewrite app_nil_r; reflexivity|].
  replace (repeat (@nil Z) (S n)) with (repeat (@nil Z) n ++ [[]]) by (clear; induction n; cbn; [reflexivity|f_equal; assumption]).
  rewrite app_assoc. unfold final_value in *. rewrite join_nl_snoc_blank by (destruct ls; [contradiction|discriminate]).
  rewrite (rstrip_app_ws _ [10] eq_refl). exact IH.
Qed.

(* ---- files with blank lines *)
Definition oblk := (oline * list (list Z))%type.                 (* an option and the blank lines after it *)
Definition osec2 := (list Z * list (list Z) * list oblk)%type.   (* header, blank lines after it, options *)
Definition render_oblk (ob : oblk) : list (list Z) := render_opt (fst ob) ++ snd ob.
Definition render_sec2 (s : osec2) : list (list Z) := ((91 :: fst (fst s) ++ [93]) :: snd (fst s)) ++ flat_map render_oblk (snd s).
Definition render_file2 (f : list osec2) : list (list Z) := flat_map render_sec2 f.
Definition plain (f : list osec2) : list osec := map (fun s => (fst (fst s), map fst (snd s))) f.
Definition blanks_ok (f : list osec2) : Prop :=
  Forall (fun s => Forall all_sp (snd (fst s)) /\ Forall (fun ob => Forall all_sp (snd ob)) (snd s)) f.
Definition stored2 (ob : oblk) : optlines := (keyx (fst ob), snd (stored (fst ob)) ++ repeat [] (length (snd ob))).

Lemma options_run2 (done : list sect) h : has_sect h done = false -> forall (obs : list oblk) (os : list optlines) o0 b,
  opts_wf (map fst os) (map fst obs) -> Forall (fun ob => Forall all_sp (snd ob)) obs ->
  exists o1, run (mk (done ++ [(h, os)]) (Some h) o0 0 b) (flat_map render_oblk obs) = Go (mk (done ++ [(h, os ++ map stored2 obs)]) (Some h) o1 0 b).
Proof.
  intro Hh. induction obs as [|ob obs IH]; intros os o0 b H Hb.
  - exists o0. cbn. rewrite app_nil_r. reflexivity.
  - cbn [map opts_wf] in H. destruct H as (Ho & Hs & Hr). inversion Hb as [|? ? Hb1 Hb2]; subst.
    change (flat_map render_oblk (ob :: obs)) with ((render_opt (fst ob) ++ snd ob) ++ flat_map render_oblk obs).
    assert (Hno : has_opt (keyx (fst ob)) os = false) by (rewrite has_opt_names; exact Hs).
    rewrite !run_app, (option_lines done h os o0 b (fst ob) Ho Hh Hno), (blanks_opt _ _ _ _ _ _ Hb1).
    change (stored (fst ob)) with (keyx (fst ob), snd (stored (fst ob))). rewrite (add_blanks_last _ _ _ _ _ _ Hh Hno).
    destruct (IH (os ++ [stored2 ob]) (Some (keyx (fst ob))) b) as (o1 & E).
    + rewrite map_app. exact Hr.
    + exact Hb2.
    + exists o1. etransitivity; [exact E|]. rewrite <- app_assoc. reflexivity.
Qed.
Lemma sections_run2 f : forall (done : list sect) c o b, secs_wf (map fst done) (plain f) -> blanks_ok f ->
  exists c1 o1, run (mk done c o 0 b) (render_file2 f) = Go (mk (done ++ map (fun s => (fst (fst s), map stored2 (snd s))) f) c1 o1 0 b).
Proof.
  induction f as [|s f IH]; intros done c o b H Hb.
  - exists c, o. cbn. rewrite app_nil_r. reflexivity.
  - cbn [plain map secs_wf fst snd] in H. destruct H as (Hh & Hs & Ho & Hr). inversion Hb as [|? ? (Hb1 & Hb2) Hb3]; subst.
    change (render_file2 (s :: f)) with (render_sec2 s ++ render_file2 f). unfold render_sec2. rewrite !run_app. cbn [run].
    assert (Hn : has_sect (fst (fst s)) done = false) by (rewrite has_sect_names; exact Hs).
    rewrite (header_line done c o b (fst (fst s)) Hh Hn), (blanks_noopt _ _ _ _ _ Hb1).
    destruct (options_run2 done (fst (fst s)) Hn (snd s) [] None b Ho Hb2) as (o1 & E). rewrite E. cbn [app].
    destruct (IH (done ++ [(fst (fst s), map stored2 (snd s))]) (Some (fst (fst s))) o1 b) as (c2 & o2 & E2).
    + rewrite map_app. exact Hr.
    + exact Hb3.
    + exists c2, o2. rewrite E2. cbn [map]. rewrite <- app_assoc. reflexivity.
Qed.
Theorem parse_render2 f : secs_wf [] (plain f) -> blanks_ok f -> parse_ini (render_file2 f) = Some (expect (plain f)).
Proof.
  intros H Hb. unfold parse_ini, init. destruct (sections_run2 f [] None None false H Hb) as (c1 & o1 & E). rewrite E. cbn [bad secs app].
  unfold expect, plain. rewrite !map_map. apply f_equal. apply map_ext. intro s. cbn [fst snd]. rewrite !map_map. f_equal.
  apply map_ext. intro ob. unfold stored2. cbn [fst snd]. f_equal. apply final_value_blanks. discriminate.
Qed.
