(* C18: the legacy reader is the continuous piecewise-linear interpolant: the straight-line formula of a segment also
   holds at its two end rows (so nothing jumps at a data point), on the closed segment [lx, hx]. *)
From Coq Require Import QArith Qminmax List Lia Lqa.
From V Require Import lib.Common lib.Sorting model.TableReader proof.C18.
Import ListNotations.
Open Scope Q_scope.

Lemma get_value_segment_closed l1 lx ly hx hy l2 x :
  xsorted (l1 ++ (lx, ly) :: (hx, hy) :: l2) -> lx <= x -> x <= hx ->
  let t := (x - lx) / (hx - lx) in
  get_value (l1 ++ (lx, ly) :: (hx, hy) :: l2) x == ly * (1 - t) + hy * t.
Proof.
  intros Hs Hl Hh t.
  assert (Hd : lx < hx).
  { destruct (xsorted_split _ _ _ Hs) as [_ H2]. inversion H2 as [|? ? Hq _]; subst. exact Hq. }
  assert (Hnz : ~ hx - lx == 0) by (intro E; lra).
  destruct (Qlt_le_dec lx x) as [Hl'|Hl'].
  - destruct (Qlt_le_dec x hx) as [Hh'|Hh'].
    + rewrite (get_value_between _ _ _ _ _ _ _ Hs Hl' Hh').
      destruct (line_convex lx ly hx hy x Hl' Hh') as (E & _). exact E.
    + assert (Ex : x == hx) by lra.
      assert (Hs' : xsorted ((l1 ++ [(lx, ly)]) ++ (hx, hy) :: l2)) by (rewrite <- app_assoc; exact Hs).
      replace (l1 ++ (lx, ly) :: (hx, hy) :: l2) with ((l1 ++ [(lx, ly)]) ++ (hx, hy) :: l2) by (rewrite <- app_assoc; reflexivity).
      rewrite (get_value_at_point _ (hx, hy) _ x Hs' Ex). cbn [snd].
      assert (Et : t == 1) by (unfold t; rewrite Ex; field; exact Hnz).
      rewrite Et. ring.
  - assert (Ex : x == lx) by lra.
    rewrite (get_value_at_point l1 (lx, ly) ((hx, hy) :: l2) x Hs Ex). cbn [snd].
    assert (Et : t == 0) by (unfold t; rewrite Ex; field; exact Hnz).
    rewrite Et. ring.
Qed.

(* hence on the closed segment the value never leaves the interval spanned by the two neighbouring y (no overshoot) *)
Lemma get_value_segment_bounded l1 lx ly hx hy l2 x :
  xsorted (l1 ++ (lx, ly) :: (hx, hy) :: l2) -> lx <= x -> x <= hx ->
  Qmin ly hy <= get_value (l1 ++ (lx, ly) :: (hx, hy) :: l2) x /\ get_value (l1 ++ (lx, ly) :: (hx, hy) :: l2) x <= Qmax ly hy.
Proof.
  intros Hs Hl Hh.
  assert (Hd : lx < hx).
  { destruct (xsorted_split _ _ _ Hs) as [_ H2]. inversion H2 as [|? ? Hq _]; subst. exact Hq. }
  pose proof (get_value_segment_closed _ _ _ _ _ _ _ Hs Hl Hh) as E. cbn zeta in E. rewrite E.
  apply convex_between.
  - apply Qle_shift_div_l; lra.
  - apply Qle_shift_div_r; lra.
Qed.
