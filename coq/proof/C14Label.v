(* C14: SECTION_NAME:KEY=VALUE on the potable command line is read as that section, that key and that value -- whatever
   colons and equals signs the value contains (model/ItemLabel.v). *)
From Coq Require Import ZArith List Bool Lia ZifyBool.
From V Require Import lib.Common model.Ini model.ItemLabel proof.IniProofs.
Import ListNotations.
Local Open Scope Z_scope.

Definition without (c : Z) (l : list Z) : Prop := forallb (fun x => negb (x =? c)) l = true.
Lemma split_first_app c a b : without c a -> split_first c (a ++ c :: b) = Some (a, b).
Proof.
  unfold without. induction a as [|x a IH]; intro H; cbn [app split_first].
  - rewrite Z.eqb_refl. reflexivity.
  - cbn [forallb] in H. apply andb_true_iff in H. destruct H as [Hx Ha]. apply negb_true_iff in Hx. rewrite Hx, (IH Ha). reflexivity.
Qed.
Lemma split_first_none c a : without c a -> split_first c a = None.
Proof.
  unfold without. induction a as [|x a IH]; intro H; [reflexivity|]. cbn [forallb] in H. apply andb_true_iff in H. destruct H as [Hx Ha].
  apply negb_true_iff in Hx. cbn [split_first]. rewrite Hx, (IH Ha). reflexivity.
Qed.
Lemma contains_app c a b : contains c (a ++ b) = contains c a || contains c b.
Proof. unfold contains. apply existsb_app. Qed.
Lemma contains_without c a : without c a -> contains c a = false.
Proof.
  unfold without, contains. induction a as [|x a IH]; intro H; [reflexivity|]. cbn [forallb existsb] in *. apply andb_true_iff in H. destruct H as [Hx Ha].
  apply negb_true_iff in Hx. rewrite Hx, (IH Ha). reflexivity.
Qed.

(* a section whose name is not Table-Form: the label ends at the first "=", its section at the first ":" *)
Theorem item_plain S K V : without 58 S -> zlist_eqb (strip S) table_form = false -> without 61 K ->
  override_tuple (S ++ 58 :: K ++ 61 :: V) true = Some (S, K, Some V) /\ override_tuple (S ++ 58 :: K) false = Some (S, K, None).
Proof.
  intros HS Ht HK. unfold override_tuple, split_item_label. rewrite !(split_first_app 58 S _ HS), Ht. cbn [andb].
  rewrite (split_first_app 61 K V HK). split; reflexivity.
Qed.
(* Table-Form:NAME:KEY -- the section name ends at the second colon *)
Theorem item_table S0 N K V : without 58 S0 -> zlist_eqb (strip S0) table_form = true -> without 58 N -> without 61 N -> without 58 K -> without 61 K ->
  override_tuple (S0 ++ 58 :: N ++ 58 :: K ++ 61 :: V) true = Some (S0 ++ 58 :: N, K, Some V)
  /\ override_tuple (S0 ++ 58 :: N ++ 58 :: K) false = Some (S0 ++ 58 :: N, K, None).
Proof.
  intros HS Ht HN HN' HK HK'. unfold override_tuple, split_item_label. rewrite !(split_first_app 58 S0 _ HS), Ht. cbn [andb].
  assert (W : without 61 (N ++ 58 :: K)).
  { unfold without in *. rewrite forallb_app. cbn [forallb]. rewrite HN', HK'. reflexivity. }
  assert (B1 : before_first 61 (N ++ 58 :: K ++ 61 :: V) = N ++ 58 :: K).
  { unfold before_first. change (N ++ 58 :: K ++ 61 :: V) with (N ++ (58 :: K) ++ 61 :: V). rewrite app_assoc.
    change ((N ++ 58 :: K) ++ 61 :: V) with ((N ++ 58 :: K) ++ 61 :: V). rewrite (split_first_app 61 _ V W). reflexivity. }
  assert (B2 : before_first 61 (N ++ 58 :: K) = N ++ 58 :: K) by (unfold before_first; rewrite (split_first_none 61 _ W); reflexivity).
  assert (C : contains 58 (N ++ 58 :: K) = true) by (rewrite contains_app; cbn; apply orb_true_r).
  rewrite B1, B2, C, !(split_first_app 58 N _ HN), (split_first_app 61 K V HK'). split; reflexivity.
Qed.
