(* C03: setfl (eam/alloy). *)
From Coq Require Import Sorted.
From V Require Import lib.Common lib.Layout gen.GridArith model.PairTables model.EamTables model.EamBuilder proof.LayoutLemmas.
Local Open Scope Z_scope.

(* ---- builder: every element is named once ---- *)
Lemma mem_In x l : mem x l = true <-> In x l.
Proof.
  unfold mem. rewrite existsb_exists. split.
  - intros (y & Hy & E). apply Z.eqb_eq in E. subst. exact Hy.
  - intro H. exists x. split; [exact H|apply Z.eqb_refl].
Qed.

Lemma dedup_spec l : forall seen, NoDup (dedup l seen) /\ (forall x, In x (dedup l seen) <-> In x l /\ ~ In x seen).
Proof.
  induction l as [|y l IH]; intro seen; cbn [dedup].
  - split; [constructor|]. intro x. cbn. tauto.
  - destruct (mem y seen) eqn:E.
    + destruct (IH seen) as [H1 H2]. split; [exact H1|]. intro x. rewrite H2. cbn. apply mem_In in E.
      split; [tauto|]. intros [[<-|H] Hn]; [contradiction|tauto].
    + destruct (IH (y :: seen)) as [H1 H2].
      assert (Hy : ~ In y seen) by (intro H; apply mem_In in H; congruence).
      split.
      * constructor; [|exact H1]. rewrite H2. cbn. tauto.
      * intro x. cbn [In]. rewrite H2. cbn [In]. split.
        -- intros [<-|[Hx Hn]]; [tauto|]. split; [tauto|]. tauto.
        -- intros [[<-|Hx] Hn]; [left; reflexivity|]. destruct (Z.eq_dec y x) as [->|Hne]; [left; reflexivity|right; tauto].
Qed.

Definition strictly_sorted (l : list Z) : Prop := forall i j d, (i < j < length l)%nat -> nth i l d < nth j l d.

Lemma insert_sorted_spec x l : StronglySorted Z.lt l ->
  StronglySorted Z.lt (insert_sorted x l) /\ (forall y, In y (insert_sorted x l) <-> y = x \/ In y l).
Proof.
  induction l as [|z l IH]; intro Hs; cbn [insert_sorted].
  - split; [repeat constructor|]. intro y. cbn. intuition.
  - inversion Hs as [|? ? Hs' Hall]; subst. destruct (x =? z) eqn:E1.
    + apply Z.eqb_eq in E1. subst. split; [exact Hs|]. intro y. cbn. intuition.
    + destruct (x <? z) eqn:E2.
      * apply Z.ltb_lt in E2. split.
        -- constructor; [exact Hs|]. constructor; [exact E2|]. eapply Forall_impl; [|exact Hall]. intros a Ha. lia.
        -- intro y. cbn. intuition.
      * apply Z.ltb_ge in E2. apply Z.eqb_neq in E1. destruct (IH Hs') as [H1 H2]. split.
        -- constructor; [exact H1|]. rewrite Forall_forall. intros a Ha. apply H2 in Ha. destruct Ha as [->|Ha]; [lia|].
           rewrite Forall_forall in Hall. apply Hall, Ha.
        -- intro y. cbn [In]. rewrite H2. intuition.
Qed.

Lemma sort_unique_spec l : StronglySorted Z.lt (sort_unique l) /\ (forall y, In y (sort_unique l) <-> In y l).
Proof.
  unfold sort_unique.
  assert (G : forall acc, StronglySorted Z.lt acc ->
            StronglySorted Z.lt (fold_left (fun a x => insert_sorted x a) l acc) /\
            (forall y, In y (fold_left (fun a x => insert_sorted x a) l acc) <-> In y l \/ In y acc)).
  { induction l as [|x l IH]; intros acc Ha; cbn [fold_left].
    - split; [exact Ha|]. intro y. cbn. tauto.
    - destruct (insert_sorted_spec x acc Ha) as [H1 H2]. destruct (IH _ H1) as [H3 H4]. split; [exact H3|].
      intro y. rewrite H4, H2. cbn. intuition. }
  destruct (G [] (SSorted_nil _)) as [H1 H2]. split; [exact H1|]. intro y. rewrite H2. cbn. tauto.
Qed.

Lemma strongly_sorted_nodup l : StronglySorted Z.lt l -> NoDup l.
Proof.
  induction 1 as [|x l Hs IH Hall]; constructor; [|exact IH].
  intro Hin. rewrite Forall_forall in Hall. specialize (Hall _ Hin). lia.
Qed.

Lemma nodup_app (l1 l2 : list Z) : NoDup l1 -> NoDup l2 -> (forall x, In x l1 -> In x l2 -> False) -> NoDup (l1 ++ l2).
Proof.
  induction l1 as [|a l1 IH]; intros H1 H2 Hd; [exact H2|]. cbn. inversion H1; subst. constructor.
  - rewrite in_app_iff. intros [H|H]; [contradiction|]. apply (Hd a); [left; reflexivity|exact H].
  - apply IH; [assumption|assumption|]. intros x Hx Hy. apply (Hd x); [right; exact Hx|exact Hy].
Qed.

Theorem builder_order_nodup embed dens : NoDup (builder_order embed dens).
Proof.
  unfold builder_order. destruct (dedup_spec embed []) as [H1 H2].
  destruct (sort_unique_spec (filter (fun s => negb (mem s (dedup embed []))) dens)) as [H3 H4].
  apply nodup_app; [exact H1|apply strongly_sorted_nodup, H3|].
  intros x Hx Hy. apply H4 in Hy. apply filter_In in Hy. destruct Hy as [_ Hy].
  apply negb_true_iff in Hy. apply mem_In in Hx. congruence.
Qed.

Theorem builder_order_complete embed dens x : In x (builder_order embed dens) <-> In x embed \/ In x dens.
Proof.
  unfold builder_order. destruct (dedup_spec embed []) as [_ H2].
  destruct (sort_unique_spec (filter (fun s => negb (mem s (dedup embed []))) dens)) as [_ H4].
  rewrite in_app_iff, H2, H4, filter_In. cbn [In]. split.
  - intros [[H _]|[H _]]; tauto.
  - intros [H|H]; [left; tauto|]. destruct (mem x (dedup embed [])) eqn:E.
    + apply mem_In, H2 in E. left. exact E.
    + right. split; [exact H|reflexivity].
Qed.

(* the [EAM-Embed] species come first, in file order (first occurrence) *)
Theorem builder_order_prefix embed dens : exists rest, builder_order embed dens = dedup embed [] ++ rest.
Proof. eexists. reflexivity. Qed.

(* ---- columns ---- *)
Lemma column_trace fn n step sc :
  flat_map item_evs (column fn n step sc) = map (fun i => mkev fn KCall (setfl_sample i step)) (zseq 0 (Z.to_nat n)).
Proof.
  unfold column. generalize (zseq 0 (Z.to_nat n)). intro l. induction l as [|i l IH]; [reflexivity|].
  change (flat_map item_evs ([IVal F_s2016e [mkev fn KCall (setfl_sample i step)] (fun _ => sc); nl] ++
            flat_map (fun i0 => [IVal F_s2016e [mkev fn KCall (setfl_sample i0 step)] (fun _ => sc); nl]) l) =
          mkev fn KCall (setfl_sample i step) :: map (fun i0 => mkev fn KCall (setfl_sample i0 step)) l).
  rewrite evs_app, IH. reflexivity.
Qed.
Lemma zero_column_trace n : flat_map item_evs (zero_column n) = [].
Proof. unfold zero_column. generalize (zseq 0 (Z.to_nat n)). intro l. induction l as [|i l IH]; [reflexivity|]. cbn. exact IH. Qed.

Lemma column_length fn n step sc : (0 <= n) -> length (filter (fun i => match i with IVal _ _ _ => true | _ => false end) (column fn n step sc)) = Z.to_nat n.
Proof.
  intros _. unfold column. rewrite <- (zseq_length 0 (Z.to_nat n)) at 2. generalize (zseq 0 (Z.to_nat n)). intro l.
  induction l as [|i l IH]; [reflexivity|]. cbn. rewrite IH. reflexivity.
Qed.

(* ---- pair lookup ---- *)
Lemma find_pair_sym a b pairs : find_pair a b pairs = find_pair b a pairs.
Proof.
  unfold find_pair. destruct (a <=? b) eqn:E1, (b <=? a) eqn:E2; try reflexivity.
  - assert (a = b) by lia. subst. reflexivity.
  - lia.
Qed.

Lemma last_with_none k l : forall acc, last_with k l acc = None -> acc = None /\ Forall (fun ip => key_eqb (sorted_key (snd ip)) k = false) l.
Proof.
  induction l as [|[i p] l IH]; intros acc H; cbn [last_with] in H; [split; [exact H|constructor]|].
  apply IH in H. destruct H as [H1 H2]. destruct (key_eqb (sorted_key p) k) eqn:E; [discriminate|]. split; [exact H1|constructor; assumption].
Qed.

Lemma last_with_some k l i : last_with k l None = Some i ->
  exists p, In (i, p) l /\ key_eqb (sorted_key p) k = true.
Proof.
  assert (G : forall acc, last_with k l acc = Some i -> (exists p, In (i, p) l /\ key_eqb (sorted_key p) k = true) \/ acc = Some i).
  { induction l as [|[j q] l IH]; intros acc H; cbn [last_with] in H; [right; exact H|].
    apply IH in H. destruct H as [(p & Hp & Hk)|H]; [left; exists p; split; [right; exact Hp|exact Hk]|].
    destruct (key_eqb (sorted_key q) k) eqn:E; [injection H as <-; left; exists q; split; [left; reflexivity|exact E]|right; exact H]. }
  intro H. apply G in H. destruct H as [H|H]; [exact H|discriminate].
Qed.

(* ---- metadata precedence ---- *)
Lemma metadata_species {V} (s : V) b d : metadata (Some s) b d = Ok s.
Proof. reflexivity. Qed.
Lemma metadata_builtin {V} (b : V) d : metadata None (Some b) d = Ok b.
Proof. reflexivity. Qed.
Lemma metadata_default {V} (d : V) : metadata None None (Some d) = Ok d.
Proof. reflexivity. Qed.
Lemma metadata_missing {V} : @metadata V None None None = CfgErr.
Proof. reflexivity. Qed.
