(* C10: splined potentials keep their end potentials and join them with matching value, slope and curvature. *)
From Coq Require Import Reals List Bool Lra Lia.
From Coquelicot Require Import Coquelicot.
From V Require Import lib.RLib lib.RTactics gen.PotFuncs gen.Splines model.Callable model.Spline proof.C07Leaves.
Import ListNotations.
Local Open Scope R_scope.

(* ------------------------------------------------------------------ the shift makes both values positive *)
Lemma exp_inter_pos sy ey : let i := exp_inter sy ey in 0 < sy + i /\ 0 < ey + i.
Proof.
  unfold exp_inter. pose proof (Rmin_l sy ey). pose proof (Rmin_r sy ey).
  destruct (Rle_dec sy 0); [split; lra|]. destruct (Rle_dec ey 0); split; lra.
Qed.

Lemma length6 {A} (l : list A) : length l = 6%nat -> exists a b c d e f, l = [a; b; c; d; e; f].
Proof. do 7 (destruct l as [|? l]; try discriminate). intros _. repeat eexists. Qed.
Lemma length10 {A} (l : list A) : length l = 10%nat -> exists a b c d e f g h i j, l = [a; b; c; d; e; f; g; h; i; j].
Proof. do 11 (destruct l as [|? l]; try discriminate). intros _. repeat eexists. Qed.

Ltac from H := etransitivity; [|etransitivity; [exact H|]]; [ring|first [reflexivity | ring | field; assumption]].
Ltac lin1 Ha := match type of Ha with ?La = ?Ra =>
   apply Rminus_diag_uniq; transitivity (La - Ra); [ring | rewrite Ha; ring] end.
Ltac lin2 Ha Hb := match type of Ha with ?La = ?Ra => match type of Hb with ?Lb = ?Rb =>
   apply Rminus_diag_uniq; transitivity ((La - Ra) - (Lb - Rb)); [ring | rewrite Ha, Hb; ring] end end.
(* ------------------------------------------------------------------ Exp_Spline *)
(* any solution of the translated 6x6 system gives a spline exp(P5(r)) + C whose value, first and second derivative
   (the analytic ones of as.exp_spline, true derivatives by C07) equal those of the two Spline_Points *)
Lemma exp_join d a B C : exp_coeffs_ok d a B C ->
  let s := exp_spline_callable B C in
  cf s (sp_r d) = sp_v d /\ cf (gradient s) (sp_r d) = sp_d d /\ cf (gradient (gradient s)) (sp_r d) = sp_dd d /\
  cf s (sp_r a) = sp_v a /\ cf (gradient s) (sp_r a) = sp_d a /\ cf (gradient (gradient s)) (sp_r a) = sp_dd a.
Proof.
  intros (HC & Hlen & Hsol). destruct (length6 B Hlen) as (B0 & B1 & B2 & B3 & B4 & B5 & ->).
  destruct (exp_inter_pos (sp_v d) (sp_v a)) as [Hsy Hey].
  set (i := exp_inter (sp_v d) (sp_v a)) in *. set (sy := sp_v d + i) in *. set (ey := sp_v a + i) in *.
  set (sx := sp_r d) in *. set (ex := sp_r a) in *.
  unfold solves, exp_A, exp_rhs in Hsol. cbn [map dot] in Hsol.
  injection Hsol as H1 H2 H3 H4 H5 H6.
  cbn [exp_spline_callable gradient gradient_h cf cd cd2 nth].
  assert (Es : exp (B0 + B1 * sx + B2 * sx ^ 2 + B3 * sx ^ 3 + B4 * sx ^ 4 + B5 * sx ^ 5) = sy).
  { replace (B0 + B1 * sx + B2 * sx ^ 2 + B3 * sx ^ 3 + B4 * sx ^ 4 + B5 * sx ^ 5) with (ln sy) by (symmetry; from H1). apply exp_ln, Hsy. }
  assert (Ee : exp (B0 + B1 * ex + B2 * ex ^ 2 + B3 * ex ^ 3 + B4 * ex ^ 4 + B5 * ex ^ 5) = ey).
  { replace (B0 + B1 * ex + B2 * ex ^ 2 + B3 * ex ^ 3 + B4 * ex ^ 4 + B5 * ex ^ 5) with (ln ey) by (symmetry; from H2). apply exp_ln, Hey. }
  assert (Hsy' : sy <> 0) by lra. assert (Hey' : ey <> 0) by lra.
  unfold exp_spline_call, exp_spline_deriv, exp_spline_deriv2.
  repeat split.
  - rewrite Es. unfold sy. lra.
  - replace (B0 + sx * (B1 + sx * (B2 + sx * (B3 + sx * (B4 + B5 * sx))))) with (B0 + B1 * sx + B2 * sx ^ 2 + B3 * sx ^ 3 + B4 * sx ^ 4 + B5 * sx ^ 5) by ring.
    rewrite Es. replace (B1 + sx * (2 * B2 + sx * (3 * B3 + 4 * B4 * sx + 5 * B5 * sx ^ 2))) with (sp_d d / sy) by (symmetry; from H3). field. exact Hsy'.
  - rewrite Es.
    replace (2 * B2 + 6 * B3 * sx + 12 * B4 * sx ^ 2 + 20 * B5 * sx ^ 3) with (sp_dd d / sy - sp_d d ^ 2 / sy ^ 2) by (symmetry; from H5).
    replace (B1 + 2 * B2 * sx + 3 * B3 * sx ^ 2 + 4 * B4 * sx ^ 3 + 5 * B5 * sx ^ 4) with (sp_d d / sy) by (symmetry; from H3). field. exact Hsy'.
  - rewrite Ee. unfold ey. lra.
  - replace (B0 + ex * (B1 + ex * (B2 + ex * (B3 + ex * (B4 + B5 * ex))))) with (B0 + B1 * ex + B2 * ex ^ 2 + B3 * ex ^ 3 + B4 * ex ^ 4 + B5 * ex ^ 5) by ring.
    rewrite Ee. replace (B1 + ex * (2 * B2 + ex * (3 * B3 + 4 * B4 * ex + 5 * B5 * ex ^ 2))) with (sp_d a / ey) by (symmetry; from H4). field. exact Hey'.
  - rewrite Ee.
    replace (2 * B2 + 6 * B3 * ex + 12 * B4 * ex ^ 2 + 20 * B5 * ex ^ 3) with (sp_dd a / ey - sp_d a ^ 2 / ey ^ 2) by (symmetry; from H6).
    replace (B1 + 2 * B2 * ex + 3 * B3 * ex ^ 2 + 4 * B4 * ex ^ 3 + 5 * B5 * ex ^ 4) with (sp_d a / ey) by (symmetry; from H4). field. exact Hey'.
Qed.

(* ------------------------------------------------------------------ Buck4_Spline *)
(* any solution of the translated 10x10 system: the fifth-order piece matches the start potential at detach
   (value, slope, curvature), is stationary at r_min, meets the third-order piece there with equal value, slope
   (both zero) and curvature, and the third-order piece matches the end potential at attach *)
Lemma buck4_join d a r_min x : buck4_coeffs_ok d a r_min x ->
  let c5 := firstn 6 x in let c3 := skipn 6 x in
  (polynomial_call (sp_r d) c5 = sp_v d /\ polynomial_deriv (sp_r d) c5 = sp_d d /\ polynomial_deriv2 (sp_r d) c5 = sp_dd d) /\
  (polynomial_deriv r_min c5 = 0 /\ polynomial_deriv r_min c3 = 0 /\
   polynomial_call r_min c5 = polynomial_call r_min c3 /\ polynomial_deriv2 r_min c5 = polynomial_deriv2 r_min c3) /\
  (polynomial_call (sp_r a) c3 = sp_v a /\ polynomial_deriv (sp_r a) c3 = sp_d a /\ polynomial_deriv2 (sp_r a) c3 = sp_dd a).
Proof.
  intros (Hlen & Hsol). destruct (length10 x Hlen) as (a0 & a1 & a2 & a3 & a4 & a5 & b0 & b1 & b2 & b3 & ->).
  set (rd := sp_r d) in *. set (ra := sp_r a) in *.
  unfold solves, buck4_M, buck4_V in Hsol. cbn zeta in Hsol. cbn [map dot] in Hsol.
  injection Hsol as H1 H2 H3 H4 H5 H6 H7 H8 H9 H10.
  cbn [firstn skipn]. unfold polynomial_call, polynomial_deriv, polynomial_deriv2, isum. cbn [skipn isum_aux Nat.sub INR].
  repeat split.
  - from H1.
  - from H2.
  - from H3.
  - from H4.
  - lin2 H4 H6.
  - lin1 H5.
  - lin1 H7.
  - from H8.
  - from H9.
  - from H10.
Qed.

(* ------------------------------------------------------------------ region selection *)
Lemma region_start {A} detach attach r (s m e : A) : r <= detach -> region detach attach r s m e = s.
Proof. intro H. unfold region. destruct (Rle_dec r detach); [reflexivity|contradiction]. Qed.
Lemma region_end {A} detach attach r (s m e : A) : detach < attach -> attach <= r -> region detach attach r s m e = e.
Proof. intros Hda H. unfold region. destruct (Rle_dec r detach); [lra|]. destruct (Rle_dec attach r); [reflexivity|contradiction]. Qed.
Lemma region_mid {A} detach attach r (s m e : A) : detach < r -> r < attach -> region detach attach r s m e = m.
Proof. intros H1 H2. unfold region. destruct (Rle_dec r detach); [lra|]. destruct (Rle_dec attach r); [lra|reflexivity]. Qed.

(* two functions with the same value and the same derivative at a point, glued there, are differentiable there *)
Lemma glue_derive (f g h : R -> R) (lo a hi l : R) :
  lo < a -> a < hi ->
  (forall x, lo < x -> x < a -> f x = g x) -> (forall x, a < x -> x < hi -> f x = h x) ->
  f a = g a -> g a = h a -> is_derive g a l -> is_derive h a l -> is_derive f a l.
Proof.
  intros Hlo Hhi Hg Hh Hfa Hgh Dg Dh. apply is_derive_Reals. apply is_derive_Reals in Dg. apply is_derive_Reals in Dh.
  intros eps Heps. destruct (Dg eps Heps) as [d1 H1]. destruct (Dh eps Heps) as [d2 H2].
  assert (Hm : 0 < Rmin (Rmin d1 d2) (Rmin (a - lo) (hi - a))).
  { repeat apply Rmin_pos; try lra; [apply d1|apply d2]. }
  exists (mkposreal _ Hm). intros k Hk0 Hk. simpl in Hk.
  assert (Hk1 : Rabs k < d1) by (eapply Rlt_le_trans; [exact Hk|]; eapply Rle_trans; [apply Rmin_l|apply Rmin_l]).
  assert (Hk2 : Rabs k < d2) by (eapply Rlt_le_trans; [exact Hk|]; eapply Rle_trans; [apply Rmin_l|apply Rmin_r]).
  assert (Hk3 : Rabs k < a - lo) by (eapply Rlt_le_trans; [exact Hk|]; eapply Rle_trans; [apply Rmin_r|apply Rmin_l]).
  assert (Hk4 : Rabs k < hi - a) by (eapply Rlt_le_trans; [exact Hk|]; eapply Rle_trans; [apply Rmin_r|apply Rmin_r]).
  destruct (Rlt_dec k 0) as [Hneg|Hpos].
  - rewrite Rabs_left in Hk3 by exact Hneg. rewrite (Hg (a + k)) by lra. rewrite Hfa. apply H1; assumption.
  - assert (0 < k) by lra. rewrite Rabs_right in Hk4 by lra. rewrite (Hh (a + k)) by lra. rewrite Hfa, Hgh. apply H2; assumption.
Qed.

Section Region.
  Variables (detach attach : R) (s m e : R -> R).
  Hypothesis Hda : detach < attach.
  Let f := fun r => region detach attach r s m e r.

  Lemma region_derive_detach l : s detach = m detach -> is_derive s detach l -> is_derive m detach l -> is_derive f detach l.
  Proof.
    intros Hv Ds Dm. apply (glue_derive f s m (detach - 1) detach attach l); try lra; try assumption.
    - intros x _ Hx. unfold f. rewrite region_start by lra. reflexivity.
    - intros x H1 H2. unfold f. rewrite region_mid by lra. reflexivity.
    - unfold f. rewrite region_start by lra. reflexivity.
  Qed.
  Lemma region_derive_attach l : m attach = e attach -> is_derive m attach l -> is_derive e attach l -> is_derive f attach l.
  Proof.
    intros Hv Dm De. apply (glue_derive f m e detach attach (attach + 1) l); try lra; try assumption.
    - intros x H1 H2. unfold f. rewrite region_mid by lra. reflexivity.
    - intros x H1 _. unfold f. rewrite region_end by lra. reflexivity.
    - unfold f. rewrite region_end by lra. symmetry. exact Hv.
  Qed.
  Lemma region_derive_mid r l : detach < r -> r < attach -> is_derive m r l -> is_derive f r l.
  Proof.
    intros H1 H2 Dm. apply (is_derive_ext_loc m); [|exact Dm].
    assert (Hp : 0 < Rmin (r - detach) (attach - r)) by (apply Rmin_pos; lra).
    exists (mkposreal _ Hp). intros y Hy. unfold f. symmetry.
    assert (Hy' : Rabs (y - r) < Rmin (r - detach) (attach - r)) by exact Hy.
    pose proof (Rmin_l (r - detach) (attach - r)). pose proof (Rmin_r (r - detach) (attach - r)).
    destruct (Rabs_def2 _ _ Hy') as [Ha Hb].
    rewrite region_mid by lra. reflexivity.
  Qed.
  Lemma region_derive_below r l : r < detach -> is_derive s r l -> is_derive f r l.
  Proof.
    intros H1 Ds. apply (is_derive_ext_loc s); [|exact Ds].
    assert (Hp : 0 < detach - r) by lra. exists (mkposreal _ Hp). intros y Hy. unfold f.
    destruct (Rabs_def2 (y - r) (detach - r) Hy) as [Ha Hb].
    rewrite region_start by lra. reflexivity.
  Qed.
  Lemma region_derive_above r l : attach < r -> is_derive e r l -> is_derive f r l.
  Proof.
    intros H1 De. apply (is_derive_ext_loc e); [|exact De].
    assert (Hp : 0 < r - attach) by lra. exists (mkposreal _ Hp). intros y Hy. unfold f.
    destruct (Rabs_def2 (y - r) (r - attach) Hy) as [Ha Hb].
    rewrite region_end by lra. reflexivity.
  Qed.
End Region.

(* ------------------------------------------------------------------ Custom_SplinePotential *)
Definition dval (c : callable) (r : R) : R := match cd c with Some f => f r | None => 0 end.
Definition d2val (c : callable) (r : R) : R := match cd2 c with Some f => f r | None => 0 end.

(* a spline callable offering both analytic derivatives: gradient(spline) and gradient(gradient(spline)) are those *)
Lemma gradient_dval spl : has_d spl = true -> cf (gradient spl) = dval spl.
Proof. unfold has_d, dval, gradient, gradient_h. cbn [cf]. destruct (cd spl); [reflexivity|discriminate]. Qed.
Lemma gradient2_d2val spl : has_d2 spl = true -> cf (gradient (gradient spl)) = d2val spl.
Proof. unfold has_d2, d2val, gradient, gradient_h. cbn [cf cd]. destruct (cd2 spl); [reflexivity|discriminate]. Qed.

Section Custom.
  Variables (d a : spoint) (spl : callable).
  Hypothesis Hda : sp_r d < sp_r a.
  Hypothesis Hd : has_d spl = true.
  Hypothesis Hd2 : has_d2 spl = true.
  Let S := custom_spline d a spl.

  Lemma custom_has : has_d S = true /\ has_d2 S = true.
  Proof. unfold S, custom_spline, has_d, has_d2. cbn [cd cd2]. fold (has_d spl) (has_d2 spl). rewrite Hd, Hd2, !orb_true_r. split; reflexivity. Qed.
  Lemma custom_dval r : dval S r = region (sp_r d) (sp_r a) r (cf (sp_dc d)) (dval spl) (cf (sp_dc a)) r.
  Proof. unfold S, custom_spline, dval at 1. cbn [cd]. rewrite Hd, !orb_true_r. cbn zeta. change (sp_dc {| sp_fn := spl; sp_r := 0 |}) with (gradient spl). rewrite gradient_dval by exact Hd. reflexivity. Qed.
  Lemma custom_d2val r : d2val S r = region (sp_r d) (sp_r a) r (cf (sp_d2c d)) (d2val spl) (cf (sp_d2c a)) r.
  Proof. unfold S, custom_spline, d2val at 1. cbn [cd2]. rewrite Hd2, !orb_true_r. cbn zeta. change (sp_d2c {| sp_fn := spl; sp_r := 0 |}) with (gradient (gradient spl)). rewrite gradient2_d2val by exact Hd2. reflexivity. Qed.

  (* the end potentials are kept: value, deriv and deriv2 are those of the start potential up to and including
     detach and those of the end potential from attach on *)
  Lemma custom_keeps_start r : r <= sp_r d ->
    cf S r = cf (sp_fn d) r /\ dval S r = cf (gradient (sp_fn d)) r /\ d2val S r = cf (gradient (gradient (sp_fn d))) r.
  Proof.
    intro H. rewrite custom_dval, custom_d2val. unfold S, custom_spline. cbn [cf]. rewrite !region_start by exact H. repeat split.
  Qed.
  Lemma custom_keeps_end r : sp_r a <= r ->
    cf S r = cf (sp_fn a) r /\ dval S r = cf (gradient (sp_fn a)) r /\ d2val S r = cf (gradient (gradient (sp_fn a))) r.
  Proof.
    intro H. rewrite custom_dval, custom_d2val. unfold S, custom_spline. cbn [cf]. rewrite !region_end by assumption. repeat split.
  Qed.
  Lemma custom_between r : sp_r d < r -> r < sp_r a -> cf S r = cf spl r /\ dval S r = dval spl r /\ d2val S r = d2val spl r.
  Proof.
    intros H1 H2. rewrite custom_dval, custom_d2val. unfold S, custom_spline. cbn [cf]. rewrite !region_mid by assumption. repeat split.
  Qed.

  (* C2 joins: when the spline matches value, slope and curvature of the two Spline_Points, and the points' slopes
     and curvatures are the true derivatives of the end potentials there, the splined potential is twice
     differentiable at detach and attach, its deriv / deriv2 being its true first / second derivative there *)
  Hypothesis Hs1 : forall r, is_derive (cf spl) r (dval spl r).
  Hypothesis Hs2 : forall r, is_derive (dval spl) r (d2val spl r).
  Hypothesis Jd : cf spl (sp_r d) = sp_v d /\ dval spl (sp_r d) = sp_d d /\ d2val spl (sp_r d) = sp_dd d.
  Hypothesis Ja : cf spl (sp_r a) = sp_v a /\ dval spl (sp_r a) = sp_d a /\ d2val spl (sp_r a) = sp_dd a.
  Hypothesis Dd : is_derive (cf (sp_fn d)) (sp_r d) (sp_d d) /\ is_derive (cf (sp_dc d)) (sp_r d) (sp_dd d).
  Hypothesis Da : is_derive (cf (sp_fn a)) (sp_r a) (sp_d a) /\ is_derive (cf (sp_dc a)) (sp_r a) (sp_dd a).

  Lemma custom_c2_detach :
    cf S (sp_r d) = sp_v d /\ is_derive (cf S) (sp_r d) (dval S (sp_r d)) /\ is_derive (dval S) (sp_r d) (d2val S (sp_r d)) /\
    dval S (sp_r d) = sp_d d /\ d2val S (sp_r d) = sp_dd d.
  Proof.
    destruct Jd as (J0 & J1 & J2). destruct Dd as (D1 & D2).
    destruct (custom_keeps_start (sp_r d) (Rle_refl _)) as (K0 & K1 & K2). change (dval S (sp_r d) = sp_d d) in K1. change (d2val S (sp_r d) = sp_dd d) in K2. rewrite K1, K2.
    split; [exact K0|]. split; [|split; [|split; reflexivity]].
    - unfold S, custom_spline. cbn [cf]. apply region_derive_detach; [exact Hda|rewrite J0; reflexivity|exact D1|rewrite <- J1; apply Hs1].
    - apply (is_derive_ext (fun r => region (sp_r d) (sp_r a) r (cf (sp_dc d)) (dval spl) (cf (sp_dc a)) r)); [intro t; symmetry; apply custom_dval|].
      apply region_derive_detach; [exact Hda|rewrite J1; reflexivity|exact D2|]. rewrite <- J2. apply Hs2.
  Qed.
  Lemma custom_c2_attach :
    cf S (sp_r a) = sp_v a /\ is_derive (cf S) (sp_r a) (dval S (sp_r a)) /\ is_derive (dval S) (sp_r a) (d2val S (sp_r a)) /\
    dval S (sp_r a) = sp_d a /\ d2val S (sp_r a) = sp_dd a.
  Proof.
    destruct Ja as (J0 & J1 & J2). destruct Da as (D1 & D2).
    destruct (custom_keeps_end (sp_r a) (Rle_refl _)) as (K0 & K1 & K2). change (dval S (sp_r a) = sp_d a) in K1. change (d2val S (sp_r a) = sp_dd a) in K2. rewrite K1, K2.
    split; [exact K0|]. split; [|split; [|split; reflexivity]].
    - unfold S, custom_spline. cbn [cf]. apply region_derive_attach; [exact Hda|exact J0|rewrite <- J1; apply Hs1|exact D1].
    - apply (is_derive_ext (fun r => region (sp_r d) (sp_r a) r (cf (sp_dc d)) (dval spl) (cf (sp_dc a)) r)); [intro t; symmetry; apply custom_dval|].
      apply region_derive_attach; [exact Hda|exact J1| |exact D2]. rewrite <- J2. apply Hs2.
  Qed.
  (* strictly inside the splined region deriv / deriv2 are the true derivatives as well *)
  Lemma custom_c2_inside r : sp_r d < r -> r < sp_r a -> is_derive (cf S) r (dval S r) /\ is_derive (dval S) r (d2val S r).
  Proof.
    intros H1 H2. destruct (custom_between r H1 H2) as (_ & K1 & K2). rewrite K1, K2. split.
    - unfold S, custom_spline. cbn [cf]. apply region_derive_mid; [assumption|assumption|apply Hs1].
    - apply (is_derive_ext (fun r => region (sp_r d) (sp_r a) r (cf (sp_dc d)) (dval spl) (cf (sp_dc a)) r)); [intro t; symmetry; apply custom_dval|].
      apply region_derive_mid; [assumption|assumption|apply Hs2].
  Qed.
End Custom.

(* ------------------------------------------------------------------ the two splines are C2 inside the region *)
Lemma piece2_derive (g h g' h' : R -> R) (rmin : R) :
  (forall r, is_derive g r (g' r)) -> (forall r, is_derive h r (h' r)) -> g rmin = h rmin -> g' rmin = h' rmin ->
  forall r, is_derive (fun r => if Rlt_dec r rmin then g r else h r) r (if Rlt_dec r rmin then g' r else h' r).
Proof.
  intros Dg Dh Hv Hd r. destruct (Rlt_dec r rmin) as [Hlt|Hge].
  - apply (is_derive_ext_loc g); [|apply Dg]. assert (Hp : 0 < rmin - r) by lra. exists (mkposreal _ Hp). intros y Hy.
    destruct (Rabs_def2 (y - r) (rmin - r) Hy) as [Ha Hb]. destruct (Rlt_dec y rmin); [reflexivity|lra].
  - destruct (Req_dec r rmin) as [->|Hne].
    + apply (glue_derive _ g h (rmin - 1) rmin (rmin + 1)); try lra.
      * intros x _ Hx. destruct (Rlt_dec x rmin); [reflexivity|lra].
      * intros x Hx _. destruct (Rlt_dec x rmin); [lra|reflexivity].
      * destruct (Rlt_dec rmin rmin); [lra|]. symmetry. exact Hv.
      * rewrite <- Hd. apply Dg.
      * apply Dh.
    + apply (is_derive_ext_loc h); [|apply Dh]. assert (Hp : 0 < r - rmin) by lra. exists (mkposreal _ Hp). intros y Hy.
      destruct (Rabs_def2 (y - r) (r - rmin) Hy) as [Ha Hb]. destruct (Rlt_dec y rmin); [lra|reflexivity].
Qed.

Lemma exp_callable_has B C : has_d (exp_spline_callable B C) = true /\ has_d2 (exp_spline_callable B C) = true.
Proof. split; reflexivity. Qed.
Lemma exp_callable_d1 B C r : is_derive (cf (exp_spline_callable B C)) r (dval (exp_spline_callable B C) r).
Proof. unfold dval. cbn [exp_spline_callable cf cd]. apply exp_spline_d. Qed.
Lemma exp_callable_d2 B C r : is_derive (dval (exp_spline_callable B C)) r (d2val (exp_spline_callable B C) r).
Proof. unfold dval, d2val. cbn [exp_spline_callable cd cd2]. apply exp_spline_d2. Qed.

Lemma buck4_callable_has rmin x : has_d (buck4_spline_callable rmin x) = true /\ has_d2 (buck4_spline_callable rmin x) = true.
Proof. split; reflexivity. Qed.
Lemma buck4_callable_cf rmin x r :
  cf (buck4_spline_callable rmin x) r = (if Rlt_dec r rmin then polynomial_call r (firstn 6 x) else polynomial_call r (skipn 6 x)) /\
  dval (buck4_spline_callable rmin x) r = (if Rlt_dec r rmin then polynomial_deriv r (firstn 6 x) else polynomial_deriv r (skipn 6 x)) /\
  d2val (buck4_spline_callable rmin x) r = (if Rlt_dec r rmin then polynomial_deriv2 r (firstn 6 x) else polynomial_deriv2 r (skipn 6 x)).
Proof. unfold dval, d2val, buck4_spline_callable, which_spline. cbn [cf cd cd2]. destruct (Rlt_dec r rmin); repeat split. Qed.

Section Buck4.
  Variables (d a : spoint) (rmin : R) (x : list R).
  Hypothesis Hok : buck4_coeffs_ok d a rmin x.
  Let spl := buck4_spline_callable rmin x.
  Lemma buck4_callable_d1 r : is_derive (cf spl) r (dval spl r).
  Proof.
    destruct (buck4_join d a rmin x Hok) as (_ & (M1 & M2 & M3 & M4) & _).
    apply (is_derive_ext (fun r => if Rlt_dec r rmin then polynomial_call r (firstn 6 x) else polynomial_call r (skipn 6 x))).
    - intro t. symmetry. apply buck4_callable_cf.
    - unfold spl. destruct (buck4_callable_cf rmin x r) as (_ & -> & _).
      apply (piece2_derive (fun r => polynomial_call r (firstn 6 x)) (fun r => polynomial_call r (skipn 6 x))
                           (fun r => polynomial_deriv r (firstn 6 x)) (fun r => polynomial_deriv r (skipn 6 x)));
        [intro; apply polynomial_d|intro; apply polynomial_d|exact M3|rewrite M1, M2; reflexivity].
  Qed.
  Lemma buck4_callable_d2 r : is_derive (dval spl) r (d2val spl r).
  Proof.
    destruct (buck4_join d a rmin x Hok) as (_ & (M1 & M2 & M3 & M4) & _).
    apply (is_derive_ext (fun r => if Rlt_dec r rmin then polynomial_deriv r (firstn 6 x) else polynomial_deriv r (skipn 6 x))).
    - intro t. symmetry. apply buck4_callable_cf.
    - unfold spl. destruct (buck4_callable_cf rmin x r) as (_ & _ & ->).
      apply (piece2_derive (fun r => polynomial_deriv r (firstn 6 x)) (fun r => polynomial_deriv r (skipn 6 x))
                           (fun r => polynomial_deriv2 r (firstn 6 x)) (fun r => polynomial_deriv2 r (skipn 6 x)));
        [intro; apply polynomial_d2|intro; apply polynomial_d2|rewrite M1, M2; reflexivity|exact M4].
  Qed.
  (* stationary point at r_min *)
  Lemma buck4_stationary : is_derive (cf spl) rmin 0.
  Proof.
    destruct (buck4_join d a rmin x Hok) as (_ & (M1 & M2 & M3 & M4) & _).
    replace 0 with (dval spl rmin); [apply buck4_callable_d1|]. unfold spl.
    destruct (buck4_callable_cf rmin x rmin) as (_ & -> & _). destruct (Rlt_dec rmin rmin); [lra|exact M2].
  Qed.
  Hypothesis Hin : sp_r d < rmin < sp_r a.
  Lemma buck4_joins_dval :
    (cf spl (sp_r d) = sp_v d /\ dval spl (sp_r d) = sp_d d /\ d2val spl (sp_r d) = sp_dd d) /\
    (cf spl (sp_r a) = sp_v a /\ dval spl (sp_r a) = sp_d a /\ d2val spl (sp_r a) = sp_dd a).
  Proof.
    destruct (buck4_join d a rmin x Hok) as ((D1 & D2 & D3) & _ & (A1 & A2 & A3)).
    unfold spl. destruct (buck4_callable_cf rmin x (sp_r d)) as (-> & -> & ->). destruct (buck4_callable_cf rmin x (sp_r a)) as (-> & -> & ->).
    destruct (Rlt_dec (sp_r d) rmin); [|lra]. destruct (Rlt_dec (sp_r a) rmin); [lra|]. repeat split; assumption.
  Qed.
End Buck4.

Lemma exp_joins_dval d a B C : exp_coeffs_ok d a B C ->
  let spl := exp_spline_callable B C in
  (cf spl (sp_r d) = sp_v d /\ dval spl (sp_r d) = sp_d d /\ d2val spl (sp_r d) = sp_dd d) /\
  (cf spl (sp_r a) = sp_v a /\ dval spl (sp_r a) = sp_d a /\ d2val spl (sp_r a) = sp_dd a).
Proof.
  intro H. destruct (exp_join d a B C H) as (H1 & H2 & H3 & H4 & H5 & H6). cbn zeta.
  rewrite <- (gradient_dval (exp_spline_callable B C) eq_refl), <- (gradient2_d2val (exp_spline_callable B C) eq_refl). repeat split; assumption.
Qed.

(* ------------------------------------------------------------------ the three routes build the same function *)
(* as.buck4 A rho C rd rm ra is Buck4_SplinePotential(bornmayer(A,rho), buck(0,1,C), rd, ra, rm); its documented expansion
   starts from as.buck A rho 0, which is bornmayer A rho: same callables, hence the same Spline_Points, the same linear
   system and the same splined function for the same solution *)
Lemma buck_zero_is_bornmayer A rho : buck_c A rho 0 = bornmayer_c A rho.
Proof. reflexivity. Qed.
Lemma buck4_routes A rho C rd rm ra x : buck4_expansion A rho C rd rm ra x = buck4_form A rho C rd rm ra x.
Proof. reflexivity. Qed.
Lemma buck4_routes_system A rho C rd rm ra x :
  buck4_coeffs_ok {| sp_fn := buck_c A rho 0; sp_r := rd |} {| sp_fn := buck_c 0 1 C; sp_r := ra |} rm x <->
  buck4_coeffs_ok {| sp_fn := bornmayer_c A rho; sp_r := rd |} {| sp_fn := buck_c 0 1 C; sp_r := ra |} rm x.
Proof. split; exact (fun H => H). Qed.

(* ------------------------------------------------------------------ composed statements *)
Definition true_derivs (p : spoint) : Prop :=
  is_derive (cf (sp_fn p)) (sp_r p) (sp_d p) /\ is_derive (cf (sp_dc p)) (sp_r p) (sp_dd p).
Definition c2_at (S : callable) (r v v' v'' : R) : Prop :=
  cf S r = v /\ is_derive (cf S) r (dval S r) /\ is_derive (dval S) r (d2val S r) /\ dval S r = v' /\ d2val S r = v''.

Lemma exp_spline_c2 d a B C : sp_r d < sp_r a -> exp_coeffs_ok d a B C -> true_derivs d -> true_derivs a ->
  let S := custom_spline d a (exp_spline_callable B C) in
  c2_at S (sp_r d) (sp_v d) (sp_d d) (sp_dd d) /\ c2_at S (sp_r a) (sp_v a) (sp_d a) (sp_dd a) /\
  (forall r, sp_r d < r -> r < sp_r a -> is_derive (cf S) r (dval S r) /\ is_derive (dval S) r (d2val S r)).
Proof.
  intros Hda Hok Dd Da S. destruct (exp_joins_dval d a B C Hok) as [Jd Ja].
  split; [|split].
  - apply (custom_c2_detach d a (exp_spline_callable B C) Hda eq_refl eq_refl (exp_callable_d1 B C) (exp_callable_d2 B C) Jd Dd).
  - apply (custom_c2_attach d a (exp_spline_callable B C) Hda eq_refl eq_refl (exp_callable_d1 B C) (exp_callable_d2 B C) Ja Da).
  - intros r H1 H2. apply (custom_c2_inside d a (exp_spline_callable B C) eq_refl eq_refl (exp_callable_d1 B C) (exp_callable_d2 B C) r H1 H2).
Qed.

Lemma buck4_spline_c2 d a rmin x : sp_r d < rmin < sp_r a -> buck4_coeffs_ok d a rmin x -> true_derivs d -> true_derivs a ->
  let S := custom_spline d a (buck4_spline_callable rmin x) in
  c2_at S (sp_r d) (sp_v d) (sp_d d) (sp_dd d) /\ c2_at S (sp_r a) (sp_v a) (sp_d a) (sp_dd a) /\
  (forall r, sp_r d < r -> r < sp_r a -> is_derive (cf S) r (dval S r) /\ is_derive (dval S) r (d2val S r)) /\
  is_derive (cf S) rmin 0.
Proof.
  intros Hin Hok Dd Da S. destruct (buck4_joins_dval d a rmin x Hok Hin) as [Jd Ja].
  assert (Hda : sp_r d < sp_r a) by lra.
  pose proof (buck4_callable_d1 d a rmin x Hok) as H1. pose proof (buck4_callable_d2 d a rmin x Hok) as H2.
  split; [|split; [|split]].
  - apply (custom_c2_detach d a (buck4_spline_callable rmin x) Hda eq_refl eq_refl H1 H2 Jd Dd).
  - apply (custom_c2_attach d a (buck4_spline_callable rmin x) Hda eq_refl eq_refl H1 H2 Ja Da).
  - intros r Hr1 Hr2. apply (custom_c2_inside d a (buck4_spline_callable rmin x) eq_refl eq_refl H1 H2 r Hr1 Hr2).
  - destruct (custom_c2_inside d a (buck4_spline_callable rmin x) eq_refl eq_refl H1 H2 rmin (proj1 Hin) (proj2 Hin)) as [Hd _].
    destruct (custom_between d a (buck4_spline_callable rmin x) eq_refl eq_refl rmin (proj1 Hin) (proj2 Hin)) as (_ & K1 & _).
    fold S in Hd, K1. rewrite K1 in Hd.
    replace 0 with (dval (buck4_spline_callable rmin x) rmin); [exact Hd|].
    destruct (buck4_join d a rmin x Hok) as (_ & (M1 & M2 & M3 & M4) & _).
    destruct (buck4_callable_cf rmin x rmin) as (_ & -> & _). destruct (Rlt_dec rmin rmin); [lra|exact M2].
Qed.
