(* C13: species filtering equals deleting the unwanted interactions from the file. *)
From V Require Import lib.Common model.Store gen.GenFilter model.Filter.
Local Open Scope nat_scope.

Definition inS (S : list label) (x : label) : bool := existsb (Nat.eqb x) S.

Lemma check_tuple_exclude S sp : check_tuple S true sp = negb (existsb (inS S) sp).
Proof.
  unfold check_tuple. induction sp as [|x sp IH]; [reflexivity|]. cbn [check_tuple_loop1 existsb]. fold (inS S x).
  destruct (inS S x); cbn [andb negb orb]; [reflexivity|exact IH].
Qed.
Lemma check_tuple_include S sp : check_tuple S false sp = forallb (inS S) sp.
Proof.
  unfold check_tuple. induction sp as [|x sp IH]; [reflexivity|]. cbn [check_tuple_loop1 forallb]. fold (inS S x).
  destruct (inS S x); cbn [andb negb orb]; [exact IH|reflexivity].
Qed.

(* an entry is kept iff it is not one the hand edit deletes *)
Lemma keeps_not_offending v k : keeps v k = negb (offending v k).
Proof.
  unfold keeps, offending. destruct v as [[|] S]; cbn [v_exclude v_species].
  - rewrite check_tuple_exclude. reflexivity.
  - rewrite check_tuple_include. generalize (key_species k). intro l. induction l as [|x l IH]; [reflexivity|].
    cbn [forallb existsb]. fold (inS S x). rewrite IH. destruct (inS S x); reflexivity.
Qed.

(* include S keeps exactly the entries all of whose species are in S; exclude S those none of whose species is in S *)
Theorem include_spec S k : keeps (view_include S) k = forallb (inS S) (key_species k).
Proof. unfold keeps. apply check_tuple_include. Qed.
Theorem exclude_spec S k : keeps (view_exclude S) k = negb (existsb (inS S) (key_species k)).
Proof. unfold keeps. apply check_tuple_exclude. Qed.

(* filtering the parsed list = parsing the section of the hand-edited file *)
Theorem filter_is_delete {V} (v : view) (es : list (entry V)) :
  view_entries v (map (forget_entry V) es) = map (forget_entry V) (filter (fun e => negb (offending v (e_key e))) es).
Proof.
  unfold view_entries. induction es as [|e es IH]; [reflexivity|]. cbn [map filter forget_entry fst].
  rewrite keeps_not_offending. destruct (negb (offending v (e_key e))); cbn [map]; [f_equal|]; exact IH.
Qed.

Theorem hand_delete_store {V} (v : view) (f : rawfile V) :
  forget (hand_delete v f) = map (fun se => if filterable (fst se) then (fst se, view_entries v (snd se)) else se) (forget f).
Proof.
  unfold forget, hand_delete. rewrite !map_map. apply map_ext. intros [s es]. cbn [fst snd].
  destruct (filterable s); cbn [fst snd]; [rewrite filter_is_delete|]; reflexivity.
Qed.

(* surviving entries are unchanged and keep their relative order *)
Theorem view_entries_in {V} v (es : list (key * V)) kv : In kv (view_entries v es) <-> In kv es /\ keeps v (fst kv) = true.
Proof. unfold view_entries. apply filter_In. Qed.
Theorem view_entries_app {V} v (a b : list (key * V)) : view_entries v (a ++ b) = view_entries v a ++ view_entries v b.
Proof. unfold view_entries. apply filter_app. Qed.

(* a read through a view depends on that view's own settings only, whatever other views were created before or after *)
Definition vfinal {V} (es : list (key * V)) (st : vstate) (ops : list vop) : vstate := fold_left (fun s o => fst (vstep es s o)) ops st.

Lemma vstep_extends {V} (es : list (key * V)) st o i v : nth_error st i = Some v -> nth_error (fst (vstep es st o)) i = Some v.
Proof.
  intro H. destruct o as [w|j]; cbn [vstep fst]; [|exact H]. rewrite nth_error_app1; [exact H|]. apply nth_error_Some. congruence.
Qed.
Lemma vfinal_extends {V} (es : list (key * V)) ops : forall st i v, nth_error st i = Some v -> nth_error (vfinal es st ops) i = Some v.
Proof.
  induction ops as [|o ops IH]; intros st i v H; [exact H|]. cbn [vfinal fold_left]. apply IH. apply vstep_extends. exact H.
Qed.
Theorem views_independent {V} (es : list (key * V)) st ops i v :
  nth_error st i = Some v -> snd (vstep es (vfinal es st ops) (Read i)) = Some (view_entries v es).
Proof. intro H. cbn [vstep snd]. rewrite (vfinal_extends es ops st i v H). reflexivity. Qed.

(* with the settings stored on the shared parser the statement fails: include {0}, then exclude {0}, read the first *)
Theorem views_shared_refuted :
  let es := [(KPair 0 0, 10); (KPair 1 1, 11)] in
  vrun (vstep_shared es) [] [Create (view_include [0]); Create (view_exclude [0]); Read 0] <>
  vrun (vstep es) [] [Create (view_include [0]); Create (view_exclude [0]); Read 0].
Proof. vm_compute. intro H. discriminate H. Qed.
