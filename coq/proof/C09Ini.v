(* C09: from the lines of a potable file to the reading of a definition: configparser's text level (model/Ini.v) composed with
   the lexer and parser of definitions (model/Lexer.v, model/DefnSyntax.v). *)
From Coq Require Import ZArith List Bool Lia ZifyBool.
From V Require Import lib.Common model.DefnSyntax model.Lexer model.Ini proof.C09Syntax proof.C09Lexer proof.IniProofs.
Import ListNotations.
Local Open Scope Z_scope.

Lemma join_nl_join ls : join_nl ls = join [10] ls.
Proof. induction ls as [|l r IH]; [reflexivity|]. cbn [join_nl join]. destruct r as [|q r']; [reflexivity|]. rewrite IH. reflexivity. Qed.
Lemma rstrip_noop l c : is_sp c = false -> rstrip (l ++ [c]) = l ++ [c].
Proof. intro H. rewrite (rstrip_app_nonsp l c [] H). reflexivity. Qed.
Lemma strip_ends l : strip l = [] \/ exists t c, strip l = t ++ [c] /\ is_sp c = false.
Proof.
  unfold strip, rstrip. destruct (lstrip (rev (lstrip l))) as [|c r] eqn:E; [left; reflexivity|].
  right. exists (rev r), c. split; [reflexivity|exact (lstrip_head _ _ _ E)].
Qed.
Lemma join_snoc sep ps p : ps <> [] -> join sep (ps ++ [p]) = join sep ps ++ sep ++ p.
Proof.
  induction ps as [|a ps IH]; [contradiction|]. intros _. destruct ps as [|b ps']; [reflexivity|].
  change ((a :: b :: ps') ++ [p]) with (a :: (b :: ps') ++ [p]). cbn [join]. cbn [app]. 
  change (b :: ps' ++ [p]) with ((b :: ps') ++ [p]). rewrite (IH ltac:(discriminate)). cbn [join]. rewrite <- !app_assoc. reflexivity.
Qed.
(* the value configparser hands over for an option and its continuation lines needs no final rstrip: every piece is stripped *)
Lemma final_value_pieces x conts i0 : Forall (plain_line i0) conts ->
  final_value (strip x :: map strip conts) = join [10] (strip x :: map strip conts).
Proof.
  intro H. unfold final_value. rewrite join_nl_join. destruct conts as [|c0 cs0].
  - cbn [map join]. unfold strip. apply rstrip_idem.
  - destruct (exists_last (l := c0 :: cs0) ltac:(discriminate)) as (cs & cl & E). rewrite E in *. clear E c0 cs0. rewrite map_app. cbn [map]. apply Forall_app in H. destruct H as [_ Hl]. inversion Hl as [|? ? (_ & Hne & _) _]; subst.
    destruct (strip_ends cl) as [E0|(t & c & Et & Hc)]; [contradiction|].
    change (strip x :: map strip cs ++ [strip cl]) with ((strip x :: map strip cs) ++ [strip cl]).
    rewrite (join_snoc [10] (strip x :: map strip cs) (strip cl) ltac:(discriminate)), Et, !app_assoc. apply rstrip_noop, Hc.
Qed.

Section FileReading.
  Variable idn : list Z -> nat.
  Variable numv : list Z -> Z.
  (* a definition written after "key =" or "key :" and continued over any number of indented lines reads like the same
     pieces written on one line with one blank between them *)
  Theorem file_value_reading hi h oi key kc k' w1 d w2 x conts : key = kc :: k' ->
    all_sp hi -> h <> [] -> forallb (fun c => negb (c =? 93)) h = true ->
    all_sp oi -> is_sp kc = false -> kc <> 91 -> kc <> 35 -> kc <> 59 -> forallb (fun c => negb (is_delim c)) key = true ->
    all_sp w1 -> is_delim d = true -> all_sp w2 -> Forall (plain_line (length oi)) conts ->
    exists v, parse_ini ((hi ++ 91 :: h ++ [93]) :: (oi ++ key ++ w1 ++ d :: w2 ++ x) :: conts) = Some [(h, [(xform (rstrip key), v)])]
              /\ read_value idn numv v = read_value idn numv (join [32] (strip x :: map strip conts)).
  Proof.
    intros. eexists. split; [eapply one_option_file; eassumption|].
    rewrite (final_value_pieces x conts (length oi)) by assumption. apply read_lines; [reflexivity|discriminate].
  Qed.
End FileReading.
