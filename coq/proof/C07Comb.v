(* C07, combinators: structural induction over potential expressions of any depth. *)
From Coq Require Import Reals Lra List.
From Coquelicot Require Import Coquelicot.
From V Require Import lib.RLib lib.RTactics gen.Combinators model.Callable.
Import ListNotations.
Local Open Scope R_scope.

(* replace Derive g r by the known derivative (up to eta) *)
Ltac derive_known :=
  repeat match goal with
  | H : is_derive ?f ?r ?l |- context [Derive ?g ?r] =>
    let E := fresh "E" in assert (E : Derive g r = l) by (apply is_derive_unique; exact H); rewrite E; clear E
  end.
Ltac exd := repeat split; try exact I; try (eexists; eassumption).

(* c offers deriv and deriv2 and at r they are the first and second derivative of its value *)
Definition analytic_at (c : callable) (r : R) : Prop :=
  exists d d2, cd c = Some d /\ cd2 c = Some d2 /\ is_derive (cf c) r (d r) /\ is_derive d r (d2 r).

Lemma gradient_analytic c d d2 : cd c = Some d -> cd2 c = Some d2 ->
  cf (gradient c) = d /\ has_d c = true /\ has_d (gradient c) = true /\ cf (gradient (gradient c)) = d2.
Proof. intros H1 H2. unfold gradient, gradient_h, has_d. cbn. rewrite H1, H2. cbn. repeat split; try rewrite H2; reflexivity. Qed.

Lemma plus_analytic a b r : analytic_at a r -> analytic_at b r -> analytic_at (c_plus a b) r.
Proof.
  intros (da & d2a & Ha1 & Ha2 & Ha3 & Ha4) (db & d2b & Hb1 & Hb2 & Hb3 & Hb4).
  destruct (gradient_analytic a da d2a Ha1 Ha2) as (Ga1 & Ga2 & Ga3 & Ga4).
  destruct (gradient_analytic b db d2b Hb1 Hb2) as (Gb1 & Gb2 & Gb3 & Gb4).
  unfold analytic_at, c_plus, comb3. cbn [cf cd cd2]. rewrite Ga2, Ga3, Ga1, Gb1, Ga4, Gb4. cbn [orb andb].
  eexists. eexists. split; [reflexivity|]. split; [reflexivity|]. unfold plus_call, plus_deriv, plus_deriv2. split.
  - apply (is_derive_plus (cf a) (cf b)); assumption.
  - apply (is_derive_plus da db); assumption.
Qed.

Lemma product_analytic a b r : analytic_at a r -> analytic_at b r -> analytic_at (c_product a b) r.
Proof.
  intros (da & d2a & Ha1 & Ha2 & Ha3 & Ha4) (db & d2b & Hb1 & Hb2 & Hb3 & Hb4).
  destruct (gradient_analytic a da d2a Ha1 Ha2) as (Ga1 & Ga2 & Ga3 & Ga4).
  destruct (gradient_analytic b db d2b Hb1 Hb2) as (Gb1 & Gb2 & Gb3 & Gb4).
  unfold analytic_at, c_product, comb3. cbn [cf cd cd2]. rewrite Ga2, Ga3, Ga1, Gb1, Ga4, Gb4. cbn [orb andb].
  eexists. eexists. split; [reflexivity|]. split; [reflexivity|]. unfold product_call, product_deriv, product_deriv2. split.
  - auto_derive; [exd|].
    derive_known. ring.
  - auto_derive; [exd|].
    derive_known. ring.
Qed.

Lemma pow_analytic a b r : 0 < cf a r -> analytic_at a r -> analytic_at b r -> analytic_at (c_pow a b) r.
Proof.
  intros Hpos (da & d2a & Ha1 & Ha2 & Ha3 & Ha4) (db & d2b & Hb1 & Hb2 & Hb3 & Hb4).
  destruct (gradient_analytic a da d2a Ha1 Ha2) as (Ga1 & Ga2 & Ga3 & Ga4).
  destruct (gradient_analytic b db d2b Hb1 Hb2) as (Gb1 & Gb2 & Gb3 & Gb4).
  unfold analytic_at, c_pow, comb3. cbn [cf cd cd2]. rewrite Ga2, Ga3, Ga1, Gb1, Ga4, Gb4. cbn [orb andb].
  eexists. eexists. split; [reflexivity|]. split; [reflexivity|].
  assert (Hne : cf a r <> 0) by lra.
  assert (D1 : is_derive (pow_call (cf a) (cf b)) r (pow_deriv (cf a) (cf b) da db r)).
  { unfold pow_deriv, pow_call, Rpower. cbv zeta. auto_derive; [exd; exact Hpos|].
    derive_known. unfold Rdiv. field. exact Hne. }
  split; [exact D1|].
  unfold pow_deriv2, pow_deriv, pow_call, Rpower. cbv zeta.
  auto_derive; [exd; try exact Hpos; try exact Hne|].
  derive_known.
  unfold Rdiv. field. exact Hne.
Qed.

Lemma trans_analytic f X r : analytic_at f (r + X) -> analytic_at (c_trans f X) r.
Proof.
  intros (d & d2 & H1 & H2 & H3 & H4). unfold analytic_at, c_trans. cbn [cf cd cd2]. rewrite H1, H2. cbn [option_map].
  eexists. eexists. split; [reflexivity|]. split; [reflexivity|]. unfold trans_call, trans_deriv, trans_deriv2. split.
  - auto_derive; [exd|]. derive_known. ring.
  - auto_derive; [exd|]. derive_known. ring.
Qed.

(* the points at which an expression is evaluated inside its domain, with analytic leaves *)
Fixpoint okat (e : pexpr) (r : R) : Prop :=
  match e with
  | Leaf c => analytic_at c r
  | Plus a b => okat a r /\ okat b r
  | Product a b => okat a r /\ okat b r
  | Pow a b => okat a r /\ okat b r /\ 0 < cf (build a) r
  | Trans a X => okat a (r + X)
  end.

Theorem any_depth : forall e r, okat e r -> analytic_at (build e) r.
Proof.
  induction e as [c|a IHa b IHb|a IHa b IHb|a IHa b IHb|a IHa X]; intros r H; cbn [build okat] in *.
  - exact H.
  - destruct H as [Ha Hb]. apply plus_analytic; auto.
  - destruct H as [Ha Hb]. apply product_analytic; auto.
  - destruct H as (Ha & Hb & Hp). apply pow_analytic; auto.
  - apply trans_analytic; auto.
Qed.

(* the value computed by the built callable is the pointwise meaning of the expression *)
Theorem build_denote : forall e r, cf (build e) r = denote e r.
Proof.
  induction e as [c|a IHa b IHb|a IHa b IHb|a IHa b IHb|a IHa X]; intro r; cbn [build denote cf c_plus c_product c_pow c_trans comb3].
  - reflexivity.
  - unfold plus_call. rewrite IHa, IHb. reflexivity.
  - unfold product_call. rewrite IHa, IHb. reflexivity.
  - unfold pow_call. rewrite IHa, IHb. reflexivity.
  - unfold trans_call. apply IHa.
Qed.

(* numerical fallback: applied to the component without an analytic derivative only *)
Lemma plus_fallback a b da : cd a = Some da -> cd b = None ->
  cd (c_plus a b) = Some (fun r => da r + num_deriv r (cf b) num_deriv_default_h).
Proof. intros Ha Hb. unfold c_plus, comb3, gradient, gradient_h, has_d, plus_deriv. cbn. rewrite Ha, Hb. reflexivity. Qed.
Lemma product_fallback a b da : cd a = Some da -> cd b = None ->
  cd (c_product a b) = Some (fun r => cf a r * num_deriv r (cf b) num_deriv_default_h + cf b r * da r).
Proof. intros Ha Hb. unfold c_product, comb3, gradient, gradient_h, has_d, product_deriv. cbn. rewrite Ha, Hb. reflexivity. Qed.
Lemma no_deriv_no_deriv a b op1 op2 op3 : cd a = None -> cd b = None -> cd (comb3 op1 op2 op3 a b) = None /\ cd2 (comb3 op1 op2 op3 a b) = None.
Proof. intros Ha Hb. unfold comb3, has_d. cbn. rewrite Ha, Hb. split; reflexivity. Qed.

(* num_deriv is the slope of the secant between r - h/2 and r + h/2, hence f'(xi) for some xi in between *)
Lemma num_deriv_secant f h r : h <> 0 -> num_deriv r f h = (f (r + h / 2) - f (r - h / 2)) / h.
Proof. intro Hh. unfold num_deriv. cbv zeta. f_equal. field. Qed.

Lemma num_deriv_mvt (f f' : R -> R) h r : 0 < h ->
  (forall x, r - h / 2 <= x <= r + h / 2 -> is_derive f x (f' x)) ->
  exists xi, r - h / 2 <= xi <= r + h / 2 /\ num_deriv r f h = f' xi.
Proof.
  intros Hh Hd.
  destruct (MVT_gen f (r - h / 2) (r + h / 2) f') as (xi & Hxi & Heq).
  - intros x Hx. rewrite Rmin_left, Rmax_right in Hx by lra. apply Hd. lra.
  - intros x Hx. rewrite Rmin_left, Rmax_right in Hx by lra.
    apply continuity_pt_filterlim. apply (ex_derive_continuous f x). eexists. apply Hd. exact Hx.
  - rewrite Rmin_left, Rmax_right in Hxi by lra. exists xi. split; [exact Hxi|].
    rewrite num_deriv_secant by lra. rewrite Heq. field. lra.
Qed.

(* Potential.force: minus the analytic derivative when offered, minus the secant slope otherwise *)
Lemma force_analytic h c d r : cd c = Some d -> force h c r = - d r.
Proof. intro H. unfold force, gradient_h. cbn. rewrite H. reflexivity. Qed.
Lemma force_numeric h c r : cd c = None -> force h c r = - num_deriv r (cf c) h.
Proof. intro H. unfold force, gradient_h. cbn. rewrite H. reflexivity. Qed.

(* piecewise functions (multi-range and splined potentials): where the selection is locally constant
   the derivative is that of the selected piece *)
Lemma derive_locally_equal (f g : R -> R) r l : locally r (fun x => f x = g x) -> is_derive g r l -> is_derive f r l.
Proof. intros Hl Hg. eapply is_derive_ext_loc; [|exact Hg]. eapply filter_imp; [|exact Hl]. intros x Hx. symmetry. exact Hx. Qed.

(* multi-range: where the selection is locally constant (r away from the range starts) and the selected
   range's potential is analytic, the offered derivatives are the true ones *)
Lemma multi_analytic (select : R -> option nat) cs r i :
  locally r (fun x => select x = Some i) -> analytic_at (nth i cs zero_callable) r -> analytic_at (c_multi select cs) r.
Proof.
  intros Hloc (d & d2 & H1 & H2 & H3 & H4).
  assert (Hin : (i < length cs)%nat).
  { destruct (Nat.lt_ge_cases i (length cs)) as [Hl|Hg]; [exact Hl|]. rewrite nth_overflow in H1 by exact Hg. discriminate. }
  assert (Hd : existsb has_d cs = true).
  { apply existsb_exists. exists (nth i cs zero_callable). split; [apply nth_In, Hin|unfold has_d; rewrite H1; reflexivity]. }
  assert (Hd2 : existsb has_d2 cs = true).
  { apply existsb_exists. exists (nth i cs zero_callable). split; [apply nth_In, Hin|unfold has_d2; rewrite H2; reflexivity]. }
  destruct (gradient_analytic _ d d2 H1 H2) as (G1 & _ & _ & G2).
  unfold analytic_at, c_multi. cbn [cf cd cd2]. rewrite Hd, Hd2. cbn [orb].
  eexists. eexists. split; [reflexivity|]. split; [reflexivity|].
  pose proof (locally_singleton _ _ Hloc) as Hr.
  split.
  - rewrite Hr, G1. eapply derive_locally_equal; [|exact H3].
    eapply filter_imp; [|exact Hloc]. intros x Hx. cbn beta. rewrite Hx. reflexivity.
  - rewrite Hr, G2. eapply derive_locally_equal; [|exact H4].
    eapply filter_imp; [|exact Hloc]. intros x Hx. cbn beta. rewrite Hx, G1. reflexivity.
Qed.
