(* C09: modifiers and custom formulas mean what is documented. *)
From Coq Require Import Reals List QArith Lia.
From V Require Import lib.RLib gen.Combinators model.Callable proof.C07Comb model.Evaluator proof.C12.
Import ListNotations.
Local Open Scope R_scope.

(* sum(a, b, c, ...) / product(...) / pow(...) reduce the binary combinator over the argument potentials from the left;
   the result is the built callable of the left-nested expression, whatever expressions the arguments are *)
Lemma reduce_build (op : callable -> callable -> callable) (node : pexpr -> pexpr -> pexpr) :
  (forall x y, op (build x) (build y) = build (node x y)) ->
  forall args a, reduce op (build a) (map build args) = build (fold_left node args a).
Proof.
  intros Hop. unfold reduce. induction args as [|b args IH]; intro a; cbn [map fold_left]; [reflexivity|].
  rewrite Hop. apply IH.
Qed.
Lemma denote_fold (node : pexpr -> pexpr -> pexpr) (f : R -> R -> R) :
  (forall x y r, denote (node x y) r = f (denote x r) (denote y r)) ->
  forall args a r, denote (fold_left node args a) r = fold_left f (map (fun e => denote e r) args) (denote a r).
Proof.
  intro Hn. induction args as [|b args IH]; intros a r; cbn [fold_left map]; [reflexivity|]. rewrite IH, Hn. reflexivity.
Qed.

Theorem sum_meaning a args r :
  cf (reduce c_plus (build a) (map build args)) r = fold_left Rplus (map (fun e => denote e r) args) (denote a r).
Proof. rewrite (reduce_build c_plus Plus) by reflexivity. rewrite build_denote. apply (denote_fold Plus Rplus). reflexivity. Qed.
Theorem product_meaning a args r :
  cf (reduce c_product (build a) (map build args)) r = fold_left Rmult (map (fun e => denote e r) args) (denote a r).
Proof. rewrite (reduce_build c_product Product) by reflexivity. rewrite build_denote. apply (denote_fold Product Rmult). reflexivity. Qed.
Theorem pow_meaning a args r :
  cf (reduce c_pow (build a) (map build args)) r = fold_left Rpower (map (fun e => denote e r) args) (denote a r).
Proof. rewrite (reduce_build c_pow Pow) by reflexivity. rewrite build_denote. apply (denote_fold Pow Rpower). reflexivity. Qed.
Theorem trans_meaning a X r : cf (c_trans (build a) X) r = denote a (r + X).
Proof. change (c_trans (build a) X) with (build (Trans a X)). rewrite build_denote. reflexivity. Qed.
(* the two-argument cases as documented *)
Corollary pow2_meaning a b r : cf (reduce c_pow (build a) [build b]) r = Rpower (denote a r) (denote b r).
Proof. apply (pow_meaning a [b] r). Qed.

(* custom formulas: NAME(r, p1..pn) = FORMULA is the formula with the arguments bound positionally; a call to another
   form is that form's formula on the values of the argument expressions *)
Lemma den_var ds env i : den ds env (Var i) = nth i env 0%Q.
Proof. reflexivity. Qed.
Lemma den_call ds env j args d : nth_error ds j = Some d -> den ds env (Call j args) = d (den_args ds env args).
Proof. intro H. cbn [den]. rewrite H. reflexivity. Qed.
Lemma den_from_prefix : forall bodies acc, firstn (length acc) (den_from bodies acc) = acc.
Proof.
  induction bodies as [|b rest IH]; intro acc; cbn [den_from]; [apply firstn_all|].
  specialize (IH (acc ++ [fun vals => den acc vals b])). rewrite app_length in IH. cbn [length] in IH.
  rewrite <- (Nat.min_l (length acc) (length acc + 1)) by lia. rewrite <- firstn_firstn, IH, firstn_app, Nat.sub_diag, firstn_all. cbn. apply app_nil_r.
Qed.
Lemma den_from_spec : forall bodies acc j b, nth_error bodies j = Some b ->
  nth_error (den_from bodies acc) (length acc + j) = Some (fun vals => den (firstn (length acc + j) (den_from bodies acc)) vals b).
Proof.
  induction bodies as [|b0 rest IH]; intros acc j b Hj; [destruct j; discriminate|]. cbn [den_from].
  set (x := fun vals => den acc vals b0). destruct j as [|j].
  - cbn in Hj. injection Hj as <-. rewrite Nat.add_0_r.
    pose proof (den_from_prefix rest (acc ++ [x])) as Hp. rewrite app_length in Hp. cbn [length] in Hp.
    assert (H1 : nth_error (den_from rest (acc ++ [x])) (length acc) = Some x).
    { rewrite <- (firstn_skipn (length acc + 1) (den_from rest (acc ++ [x]))), Hp.
      rewrite nth_error_app1 by (rewrite app_length; cbn; lia). rewrite nth_error_app2, Nat.sub_diag by lia. reflexivity. }
    assert (H2 : firstn (length acc) (den_from rest (acc ++ [x])) = acc).
    { rewrite <- (Nat.min_l (length acc) (length acc + 1)) by lia. rewrite <- firstn_firstn, Hp, firstn_app, Nat.sub_diag, firstn_all. cbn. apply app_nil_r. }
    rewrite H1, H2. reflexivity.
  - cbn in Hj. specialize (IH (acc ++ [x]) j b Hj). rewrite app_length in IH. cbn [length] in IH.
    replace (length acc + S j)%nat with (length acc + 1 + j)%nat by lia. exact IH.
Qed.
(* the j-th form denotes its own formula, evaluated over the forms defined before it *)
Theorem form_meaning bodies j b : nth_error bodies j = Some b ->
  nth_error (build_pure bodies) j = Some (fun vals => den (firstn j (build_pure bodies)) vals b).
Proof.
  intro H. exact (den_from_spec bodies [] j b H).
Qed.
