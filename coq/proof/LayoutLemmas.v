(* Generic lemmas about traces of layouts. *)
From V Require Import lib.Common lib.Layout model.PairTables.

Lemma evs_app (a b : list item) : flat_map item_evs (a ++ b) = flat_map item_evs a ++ flat_map item_evs b.
Proof. apply flat_map_app. Qed.

Lemma evs_flat_map {A} (f : A -> list item) (l : list A) :
  flat_map item_evs (flat_map f l) = flat_map (fun x => flat_map item_evs (f x)) l.
Proof. induction l as [|x l IH]; cbn; [reflexivity|]. rewrite evs_app, IH. reflexivity. Qed.

Lemma trace_app (a b : list item) : trace (a ++ b) = trace a ++ trace b.
Proof. rewrite !trace_flat_map. apply evs_app. Qed.

(* items that perform no evaluation *)
Definition silent (l : list item) : Prop := flat_map item_evs l = [].
Lemma silent_app_l a b : silent a -> flat_map item_evs (a ++ b) = flat_map item_evs b.
Proof. intro H. rewrite evs_app, H. reflexivity. Qed.

(* number of evaluations before the k-th item does not depend on later items: tokens index the trace *)
Lemma number_tokens_length items : forall n, length (fst (number items n)) = length (filter (fun i => match i with IDo _ => false | _ => true end) items).
Proof.
  induction items as [|i items IH]; intro n; [reflexivity|].
  destruct i; cbn [number];
  try (specialize (IH n); destruct (number items n); cbn in *; rewrite IH; reflexivity).
  - specialize (IH (n + length evs)%nat). destruct (number items (n + length evs)). cbn in *. rewrite IH. reflexivity.
  - specialize (IH (n + length evs)%nat). destruct (number items (n + length evs)). cbn in *. exact IH.
Qed.

Lemma indexed_length {A} (l : list A) : length (indexed l) = length l.
Proof. unfold indexed. rewrite combine_length, seq_length. apply Nat.min_id. Qed.

Lemma indexed_nth {A} (l : list A) k d : (k < length l)%nat -> nth k (indexed l) (O, d) = (k, nth k l d).
Proof.
  intro H. unfold indexed. rewrite combine_nth by (rewrite seq_length; reflexivity).
  rewrite seq_nth by exact H. reflexivity.
Qed.

Lemma indexed_in {A} (l : list A) (e : A) : In e l -> exists i, In (i, e) (indexed l).
Proof.
  intro H. apply In_nth with (d := e) in H. destruct H as (n & Hn & He). exists n.
  rewrite <- He. rewrite <- (indexed_nth l n e Hn). apply nth_In. rewrite indexed_length. exact Hn.
Qed.
