(* C09, end to end: the function a definition text denotes (model/Meaning.v over the lexer and parser). *)
From Coq Require Import Reals List ZArith Bool.
From V Require Import lib.Common model.DefnSyntax model.Lexer model.Meaning proof.C09Syntax proof.C09Lexer.
Import ListNotations.

Section M.
  Variable mk : nat -> option mkind.
  Variable isc : nat -> bool.
  Variable idn : list Z -> nat.
  Variable numv : list Z -> Z.
  Variable form : nat -> list Z -> R -> R.
  Variable num : Z -> R.
  (* what a text means at r: None when it spells no tree or a tree outside the single-range fragment *)
  Definition meaning (text : list Z) (r : R) : option R :=
    match read_value idn numv text with
    | Some d => match to_sexpr mk isc d with Some e => Some (denote_s form num e r) | None => None end
    | None => None
    end.
  Theorem meaning_ws a w1 w2 b r : forallb is_ws w1 = true -> forallb is_ws w2 = true -> w1 <> [] -> w2 <> [] ->
    meaning (a ++ w1 ++ b) r = meaning (a ++ w2 ++ b) r.
  Proof. intros. unfold meaning. rewrite (read_ws_run idn numv a w1 w2 b) by assumption. reflexivity. Qed.
  Theorem meaning_lines ps w r : forallb is_ws w = true -> w <> [] -> meaning (join [10%Z] ps) r = meaning (join w ps) r.
  Proof. intros. unfold meaning. rewrite (read_lines idn numv ps w) by assumption. reflexivity. Qed.
  Theorem meaning_render d cts sp tr r : map (abs_tok idn numv) cts = print_defn d -> forallb tok_ok cts = true ->
    seps_ok false cts sp = true -> forallb is_ws tr = true ->
    meaning (render cts sp tr) r = option_map (fun e => denote_s form num e r) (to_sexpr mk isc d).
  Proof. intros E A B C. unfold meaning. rewrite (text_roundtrip idn numv d cts sp tr E A B C). destruct (to_sexpr mk isc d); reflexivity. Qed.
  (* the modifiers are the pointwise left-to-right sum / product / power of their arguments, trans is a shift of the argument *)
  Local Open Scope R_scope.
  Theorem denote_sum a args r : denote_s form num (SFold MKSum a args) r = fold_left Rplus (map (fun e => denote_s form num e r) args) (denote_s form num a r).
  Proof. reflexivity. Qed.
  Theorem denote_product a args r : denote_s form num (SFold MKProduct a args) r = fold_left Rmult (map (fun e => denote_s form num e r) args) (denote_s form num a r).
  Proof. reflexivity. Qed.
  Theorem denote_pow a args r : denote_s form num (SFold MKPow a args) r = fold_left Rpower (map (fun e => denote_s form num e r) args) (denote_s form num a r).
  Proof. reflexivity. Qed.
  Theorem denote_trans a x r : denote_s form num (STrans a x) r = denote_s form num a (r + num x).
  Proof. reflexivity. Qed.
End M.
